#!/bin/bash
# usage: try_seed.sh <seed id> [check args...]  -- runs ./check <prop> [args] against a scratch worktree of /repo HEAD with the seeded change applied
id=$1; shift; prop=${id%%-*}; wt=/tmp/vf-try-$id-$$
cd /verif
git -C /repo worktree add -q --detach $wt HEAD || exit 2
git -C $wt apply /verif/seeded/$id/patch.diff || { git -C /repo worktree remove --force $wt; echo "patch does not apply"; exit 2; }
VF_REPO=$wt ./check $prop --no-evidence "$@"; rc=$?
git -C /repo worktree remove --force $wt
exit $rc
