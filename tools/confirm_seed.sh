#!/bin/bash
# usage: confirm_seed.sh <seed-id e.g. C03-a> [srcdir]   -- confirms a seeded change in a scratch worktree and files it under /verif/seeded/<id>/
# checks: patch applies; demo passes on the clean tree; demo fails with the change; the pinned test suite still passes with it.
ID=$1; SRC=${2:-/tmp/mut/out/$ID}
WT=/tmp/mut/confirm-$ID
set -u
DEMO=$(ls $SRC/demo.py $SRC/test_demo.py 2>/dev/null | head -1)
[ -f "$SRC/patch.diff" ] && [ -n "$DEMO" ] || { echo "$ID: missing files"; exit 2; }
git -C /repo worktree add -q --detach $WT HEAD || exit 2
cleanup() { git -C /repo worktree remove --force $WT; }
trap cleanup EXIT
run_demo() { ( cd /tmp && PYTHONDONTWRITEBYTECODE=1 PYTHONPATH=$WT timeout 300 unshare -rn sh -c "ip link set lo up; /venv/bin/python $DEMO" ) > $WT.demo.log 2>&1; echo $?; }
clean_rc=$(run_demo)
git -C $WT apply $SRC/patch.diff || { echo "$ID: patch does not apply"; exit 2; }
mut_rc=$(run_demo); tail -3 $WT.demo.log > $WT.demo.tail
/tmp/mut/runtests.sh $WT > $WT.tests.log 2>&1; tests_rc=$?
base_line=$(grep BASELINE: $WT.tests.log)
files=$(git -C $WT diff --stat | tail -1)
echo "$ID: demo clean rc=$clean_rc, demo changed rc=$mut_rc, tests rc=$tests_rc ($base_line)"
if [ "$clean_rc" = 0 ] && [ "$mut_rc" != 0 ] && [ "$tests_rc" = 0 ]; then
  mkdir -p /verif/seeded/$ID
  cp $SRC/patch.diff /verif/seeded/$ID/patch.diff
  cp $DEMO /verif/seeded/$ID/
  [ -f $SRC/notes.md ] && cp $SRC/notes.md /verif/seeded/$ID/notes.md
  /venv/bin/python - "$ID" "$clean_rc" "$mut_rc" "$base_line" "$files" "$(basename $DEMO)" <<'PY'
import json, sys, re, os
sid, c, m, base, files, demo = sys.argv[1:7]
notes = open(f"/verif/seeded/{sid}/notes.md").read() if os.path.exists(f"/verif/seeded/{sid}/notes.md") else ""
meta = {"id": sid, "property": sid.split("-")[0], "needs_to_manifest": "see notes.md", "notes_excerpt": notes[:1500],
        "confirmed": {"worktree": "scratch git worktree of /repo HEAD under /tmp (removed afterwards)",
                      "demo_on_clean_tree_rc": int(c), "demo_on_changed_tree_rc": int(m),
                      "test_suite": base.strip(), "diffstat": files.strip(),
                      "commands": [f"git apply patch.diff", f"PYTHONPATH=<worktree> /venv/bin/python {demo}  (in a private netns)",
                                   "pytest baseline command of /root/.vp/BASELINE.json in a private netns, compared with the 154 stable tests"]},
        "detected_by": None}
json.dump(meta, open(f"/verif/seeded/{sid}/meta.json", "w"), indent=1)
PY
  echo "$ID: CONFIRMED -> /verif/seeded/$ID"
else
  echo "$ID: NOT CONFIRMED"; cat $WT.demo.tail
fi
rm -f $WT.demo.log $WT.demo.tail $WT.tests.log
