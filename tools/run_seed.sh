#!/bin/bash
# usage: run_seed.sh <seed-id> [check args...]  -- applies /verif/seeded/<id>/patch.diff to /repo, runs ./check <PROP> (quick, no evidence), reverts
ID=$1; shift
PROP=${ID%%-*}
cd /verif
[ -z "$(git -C /repo status --porcelain)" ] || { echo "/repo not clean"; exit 2; }
git -C /repo apply /verif/seeded/$ID/patch.diff || { echo "$ID: patch does not apply to /repo HEAD"; exit 2; }
trap 'git -C /repo checkout -- .' EXIT
./check $PROP --no-evidence "$@" > /tmp/seedrun-$ID.log 2>&1
rc=$?
echo "$ID: exit=$rc  $(grep -c '^VIOLATION' /tmp/seedrun-$ID.log) violations; $(tail -1 /tmp/seedrun-$ID.log)"
grep -A1 '^VIOLATION' /tmp/seedrun-$ID.log | grep obligation= | head -3 | cut -c1-300
exit $rc
