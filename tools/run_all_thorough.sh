#!/bin/bash
# runs every thorough check sequentially (hours); prints one line per property
cd "$(dirname "$0")/.."
for id in $(python3 -c "import json; print(' '.join(c['property_id'] for c in json.load(open('MANIFEST.json'))['checks']))"); do
  if [ -n "$1" ] && ! echo " $* " | grep -q " $id "; then continue; fi
  start=$(date +%s)
  VERIF_JOBS=${VERIF_JOBS:-16} ./check $id --tier thorough --no-evidence > thorough-$id.log 2>&1
  echo "$id exit=$? $(( $(date +%s) - start ))s $(tail -1 thorough-$id.log)"
  grep "^INCONCLUSIVE\|^HARNESS\|^VIOLATION" thorough-$id.log | cut -c1-160 | head -12
done
