#!/bin/bash
# runs every registered quick check against /repo and rewrites evidence/<id>.json (sequentially)
cd /verif
for id in $(python3 -c "import json; print(' '.join(c['property_id'] for c in json.load(open('MANIFEST.json'))['checks']))"); do
  if [ -n "$1" ] && ! echo " $* " | grep -q " $id "; then continue; fi
  start=$(date +%s)
  ./check $id --tier quick > /tmp/quick-$id.log 2>&1
  echo "$id exit=$? $(( $(date +%s) - start ))s $(tail -1 /tmp/quick-$id.log)"
done
