#!/bin/bash
# usage: seed_matrix.sh [seed ids...]  -- runs the quick check of each seeded change's property against a scratch worktree of /repo HEAD
# with the change applied (VF_REPO points the checks there; /repo itself is not touched), 4 in parallel; results -> seeded/RESULTS.tsv
cd /verif
ids=${@:-$(ls seeded | grep -E '^C[0-9]+-')}
run_one() {
  id=$1; prop=${id%%-*}; wt=/tmp/vf-seed-$id
  git -C /repo worktree add -q --detach $wt HEAD || { echo -e "$id\tERROR\tworktree"; return; }
  if git -C $wt apply /verif/seeded/$id/patch.diff 2>/dev/null; then
    VF_REPO=$wt VERIF_JOBS=4 ./check $prop --no-evidence > /tmp/seedrun-$id.log 2>&1; rc=$?
    obs=$(grep -A1 '^VIOLATION' /tmp/seedrun-$id.log | grep -o 'obligation=[^ ]*' | sort -u | head -6 | tr '\n' ' ')
    echo -e "$id\texit=$rc\t$(tail -1 /tmp/seedrun-$id.log)\t$obs"
  else
    echo -e "$id\tERROR\tpatch does not apply"
  fi
  git -C /repo worktree remove --force $wt
}
export -f run_one
printf '%s\n' $ids | xargs -P ${SEED_PAR:-4} -I{} bash -c 'run_one {}'
