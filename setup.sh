#!/bin/bash
# Build the overlay venv (/verif/.venv) = /venv's packages + crosshair-tool + z3-solver from the offline wheelhouse.
# Idempotent; serialised with flock so that concurrently started checks do not race.
set -e
cd "$(dirname "$0")"
exec 9>.venv.lock
flock 9
if [ -x .venv/bin/python ] && .venv/bin/python -c "import crosshair, z3" 2>/dev/null; then
  exit 0
fi
rm -rf .venv
/venv/bin/python -m venv .venv
SP=$(.venv/bin/python -c "import sysconfig; print(sysconfig.get_paths()['purelib'])")
echo "import site; site.addsitedir('/venv/lib/python3.12/site-packages')" > "$SP/zz_overlay.pth"
PIP_NO_INDEX=1 .venv/bin/pip install -q --no-index --find-links /opt/veriftools/wheels crosshair-tool z3-solver jsonschema >/dev/null
.venv/bin/python -c "import crosshair, z3; print('overlay venv ok', z3.get_version_string())"
