import sys; sys.path.insert(0,'.')
from runch import run
import logging
logging.disable(logging.CRITICAL)
from simloop import SimLoop
import aiocoap.protocol as proto
from aiocoap.protocol import Request
from aiocoap.pipe import Pipe
from aiocoap.message import Message, Direction
from aiocoap import error
from aiocoap.numbers.codes import Code, GET, CONTENT
for i in range(256): Code(i)

class Clock:
    def __init__(self): self.values=[]; self.i=0
    def time(self):
        v=self.values[self.i]; self.i+=1; return v
CLK=Clock(); proto.time = CLK

def fresher(v1,t1,v2,t2):
    return (v1 < v2 and v2 - v1 < 2**23) or (v1 > v2 and v1 - v2 > 2**23) or (t2 > t1 + 128)

def f(v0: int, v1: int, v2: int, t0: int, t1: int, t2: int) -> None:
    assert 0 <= v0 < 2**24 and 0 <= v1 < 2**24 and 0 <= v2 < 2**24
    assert 0 <= t0 <= t1 <= t2 <= 10**6
    CLK.values=[t0,t1,t2]; CLK.i=0
    with SimLoop() as loop:
        req = Message(code=GET, observe=0)
        pipe = Pipe(req, logging.getLogger("x"))
        r = Request(pipe, loop, logging.getLogger("x"))
        got=[]; errs=[]
        r.observation.register_callback(got.append, _suppress_deprecation=True)
        r.observation.register_errback(errs.append, _suppress_deprecation=True)
        def resp(v):
            m=Message(code=CONTENT, observe=v); m.direction=Direction.INCOMING; return m
        pipe.add_response(resp(v0), is_last=False)
        pipe.add_response(resp(v1), is_last=False)
        pipe.add_response(resp(v2), is_last=False)
        loop.run_ready()
        # oracle
        exp=[]; lv, lt = v0, t0
        for (v,t) in ((v1,t1),(v2,t2)):
            if fresher(lv,lt,v,t): exp.append(v); lv,lt=v,t
        assert [m.opt.observe for m in got] == exp
        assert errs == []
        assert r.response.done() and r.response.result().opt.observe == v0

print(run(f, 120))
