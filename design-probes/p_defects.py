import sys; sys.path.insert(0,'.')
import stubs2, logging
logging.disable(logging.CRITICAL)
from aiocoap.message import Message, Direction
from aiocoap.blockwise import Block1Spool
from aiocoap.numbers.codes import PUT, GET
import aiocoap.oscore as o

class Remote:
    blockwise_key=("R",0)
# D2: gap in block1
sp = Block1Spool.__new__(Block1Spool)
class TD(dict): pass
sp._assemblies = TD()
def blk(num, more, szx, n):
    m = Message(code=PUT, payload=b"x"*n, block1=(num, more, szx)); m.remote=Remote(); m.direction=Direction.INCOMING; return m
try: sp.feed_and_take(blk(0, True, 0, 16))
except Exception as e: print("blk0:", type(e).__name__)
try: sp.feed_and_take(blk(2, True, 0, 16))
except Exception as e: print("D2 gap ->", type(e).__name__, [c.__name__ for c in type(e).__mro__][:3])
# D6: oscore option with H flag and no data
try: print(o.CanUnprotect._uncompress(b"\x10", b"ct"))
except Exception as e: print("D6 ->", type(e).__name__, isinstance(e, o.ProtectionInvalid))
try: print(o.CanUnprotect._uncompress(b"\x11\x01", b"ct"))
except Exception as e: print("D6b ->", type(e).__name__, isinstance(e, o.ProtectionInvalid))
