import sys; sys.path.insert(0,'.')
from runch import run
import chpatch, logging, os, tempfile, shutil, asyncio
logging.disable(logging.CRITICAL)
from pathlib import Path
from simloop import SimLoop
from aiocoap.cli.fileserver import FileServer
from aiocoap.message import Message, Direction
from aiocoap.pipe import Pipe, error_to_message, run_driving_pipe
from aiocoap.numbers.codes import Code, GET, PUT, DELETE
for i in range(256): Code(i)
class Remote:
    is_multicast=False; is_multicast_locally=False
    maximum_block_size_exp=6; maximum_payload_size=1124
    def as_response_address(self): return self
    blockwise_key=("R",0)
ALPHA=["", ".", "..", "a", "sub", "a/b", "f.txt", "\x00", "~", "outside.txt"]
BASE=tempfile.mkdtemp(prefix="c19probe-")
class _Names:
    def __init__(self): self.i=0
    def __iter__(self): return self
    def __next__(self): self.i+=1; return 'tmp%06d' % self.i
tempfile._name_sequence=_Names()   # deterministic temp names (randomness stub)

def fresh():
    shutil.rmtree(BASE, ignore_errors=True)
    root=Path(BASE)/"root"; (root/"sub").mkdir(parents=True)
    (root/"f.txt").write_bytes(b"inside"); (root/"sub"/"a").write_bytes(b"deep")
    (Path(BASE)/"outside.txt").write_bytes(b"SECRET")
    return root
def snapshot(p):
    out={}
    for d,ds,fs in os.walk(p):
        for f in fs:
            q=os.path.join(d,f); out[q]=open(q,"rb").read()
        for x in ds: out[os.path.join(d,x)+"/"]=None
    return out
def f(n: int, a: int, b: int, c: int, meth: int, write: bool) -> None:
    assert 1 <= n <= 3 and 0 <= a < len(ALPHA) and 0 <= b < len(ALPHA) and 0 <= c < len(ALPHA) and 0 <= meth < 3
    comps=[ALPHA[a], ALPHA[b], ALPHA[c]][:n]
    root=fresh()
    before_out={k:v for k,v in snapshot(BASE).items() if not k.startswith(str(root))}
    before_in=snapshot(root)
    with SimLoop() as loop:
        fs=FileServer(root, logging.getLogger("x"), write=write)
        m=Message(code=[GET,PUT,DELETE][meth], payload=b"NEW" if meth==1 else b"")
        m.opt.uri_path=comps; m.remote=Remote(); m.direction=Direction.INCOMING
        log=logging.getLogger("x"); pipe=Pipe(m, log); out=[]
        pipe.on_event(lambda ev: (out.append(ev), True)[1])
        run_driving_pipe(error_to_message(pipe, log), fs.render_to_pipe(pipe)); loop.run_ready()
        assert len(out)==1 and out[0].message is not None
        resp=out[0].message
    after_out={k:v for k,v in snapshot(BASE).items() if not k.startswith(str(root))}
    assert after_out==before_out                      # nothing outside touched
    assert b"SECRET" not in resp.payload              # nothing outside read
    assert b"outside.txt" not in resp.payload or resp.code.class_!=2
    if not write: assert snapshot(root)==before_in
print(run(f, 1200))
shutil.rmtree(BASE, ignore_errors=True)
