import sys; sys.path.insert(0,'.')
from runch import run
import logging
logging.disable(logging.CRITICAL)
from simloop import SimLoop
import aiocoap.messagemanager as mmod
from aiocoap.protocol import Context
from aiocoap.tokenmanager import TokenManager
from aiocoap.messagemanager import MessageManager
from aiocoap.message import Message, Direction
from aiocoap.numbers.constants import TransportTuning
from aiocoap import resource, error
from aiocoap.numbers.types import CON, ACK, RST, NON
from aiocoap.numbers.codes import Code, GET, PUT, EMPTY, CONTENT
import asyncio
for i in range(256): Code(i)

class TT(TransportTuning):
    ACK_TIMEOUT=2000; ACK_RANDOM_FACTOR=1; MAX_RETRANSMIT=4; EMPTY_ACK_DELAY=100; MAX_LATENCY=100000
    EXCHANGE_LIFETIME=247000
TransportTuning.ACK_TIMEOUT=2000; TransportTuning.ACK_RANDOM_FACTOR=1; TransportTuning.MAX_LATENCY=100000; TransportTuning.EMPTY_ACK_DELAY=100; TransportTuning.MAX_RETRANSMIT=2
class StubRandom:
    def randint(self,a,b): return 7
    def uniform(self,a,b): return a
mmod.random=StubRandom()
import aiocoap.tokenmanager as tmod; tmod.random=StubRandom()

class Remote:
    is_multicast=False; is_multicast_locally=False
    maximum_block_size_exp=6; maximum_payload_size=1124
    scheme="coap"; hostinfo="h"; hostinfo_local="l"
    def __init__(self, n): self.n=n
    def as_response_address(self): return self
    @property
    def blockwise_key(self): return ("R", self.n)
class MI:
    def __init__(self, loop): self.sent=[]; self.loop=loop
    def send(self, msg): self.sent.append((self.loop.time(), msg.remote.n, msg.encode()))
    async def shutdown(self): pass
class Slow(resource.Resource):
    def __init__(self, loop, h): super().__init__(); self.calls=[]; self.loop=loop; self.h=h
    async def render_get(self, request):
        self.calls.append((self.loop.time(), request.remote.n))
        if self.h > 0:
            await asyncio.sleep(self.h)
        return Message(payload=b"ok")

def mk(h):
  def f(d1: int, w1: int) -> None:
    assert 0 <= d1 <= 600000 and 0 <= w1 < 2
    d2=d1; w2=1
    return body(h,d1,d2,w1,w2)
  return f
def body(h,d1,d2,w1,w2):
    with SimLoop() as loop:
        site = resource.Site(); res = Slow(loop, h); site.add_resource(["e"], res)
        ctx = Context(loop=loop, serversite=site)
        tman = TokenManager(ctx); mman = MessageManager(tman)
        mi = MI(loop); mman.message_interface = mi; tman.token_interface = mman
        ctx.request_interfaces.append(tman)
        R=[Remote(0), Remote(1)]
        def arrive(who):
            req = Message(code=GET, uri_path=["e"], _mtype=CON, _mid=4242, _token=b"\x05", transport_tuning=TT())
            req.remote = R[who]; req.direction = Direction.INCOMING
            before=len(mi.sent)
            mman.dispatch_message(req); loop.run_ready()
            return mi.sent[before:]
        arrive(0)
        loop.advance_to(d1); out1=arrive(w1)
        loop.advance_to(d2); out2=arrive(w2)
        loop.drain()
        calls0=[c for c in res.calls if c[1]==0]
        # handler at most once within lifetime for remote 0
        n_expected0 = 1 + (1 if (w1==0 and d1 >= 247000) else 0)
        if w2==0:
            last_first = d1 if (w1==0 and d1 >= 247000) else 0
            if d2 - last_first >= 247000: n_expected0 += 1
        assert len(calls0) == n_expected0
        calls1=[c for c in res.calls if c[1]==1]
        assert len(calls1) <= (w1==1) + (w2==1)
        assert loop.exceptions == []

for h in (0,200):
    print(h, run(mk(h), 300), flush=True)
