"""in-process crosshair runner: run(fn, timeout) -> list of (state, message)"""
import sys, time
from crosshair.core_and_libs import analyze_function, run_checkables
from crosshair.options import AnalysisOptionSet, AnalysisKind

def run(fn, timeout=30, per_path=None, kind="asserts"):
    kw = dict(per_condition_timeout=timeout, report_all=True, analysis_kind=[AnalysisKind.asserts if kind=="asserts" else AnalysisKind.PEP316], max_uninteresting_iterations=sys.maxsize)
    if per_path: kw["per_path_timeout"]=per_path
    opts = AnalysisOptionSet(**kw)
    t=time.time()
    chk = analyze_function(fn, opts)
    msgs = run_checkables(chk)
    return [(m.state.name, m.message) for m in msgs], round(time.time()-t,2)
