import sys; sys.path.insert(0,'.')
from runch import run
import logging
logging.disable(logging.CRITICAL)
from aiocoap.transports import tcp
from aiocoap.message import Message
from aiocoap.numbers.codes import Code, GET, CSM, CONTENT
from aiocoap.numbers.optionnumbers import OptionNumber
for i in range(256): Code(i)
for i in range(40): OptionNumber(i)

class T:
    def __init__(self): self.written=[]; self.closed=False
    def write(self, b): self.written.append(b)
    def close(self): self.closed=True
    def get_extra_info(self, k): 
        return {"sockname":("::1",5683,0,0), "peername":("::2",4000,0,0)}.get(k)
class Pool:
    _scheme="coap+tcp"; _default_port=5683
    def __init__(self): self.events=[]
    def _dispatch_incoming(self, conn, msg): self.events.append(("msg", int(msg.code), msg.token, msg.opt.encode(), msg.payload))
    def _dispatch_error(self, conn, exc): self.events.append(("err", type(exc).__name__))

def run_conn(chunks):
    pool = Pool(); t = T()
    conn = tcp.TcpConnection(pool, logging.getLogger("x"), None, is_server=True)
    conn.connection_made(t)
    conn._remote_settings = {}   # CSM already seen
    for c in chunks: 
        if t.closed: break
        conn.data_received(c)
    return pool.events, t.written[1:], t.closed, (conn._spool if not t.closed else None)

def mk(lx, ly):
  def f(x: bytes, y: bytes) -> None:
    assert len(x) == lx and len(y) == ly
    xy = x + y
    # restrict code bytes to a handful (positions vary; constrain all bytes that could be code): cheap trick: none
    a = run_conn([x, y]); b = run_conn([xy])
    assert a == b
  return f

import itertools
for (lx, ly) in [(1,1),(1,2),(2,1),(2,2),(3,1),(2,3)]:
    print(lx, ly, run(mk(lx,ly), 200), flush=True)
