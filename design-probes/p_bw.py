import sys; sys.path.insert(0,'.')
from runch import run
import logging
logging.disable(logging.CRITICAL)
from simloop import SimLoop
from aiocoap.protocol import Context
from aiocoap.message import Message, Direction
from aiocoap import error, interfaces
from aiocoap.numbers.codes import Code, GET, PUT, CONTENT, CHANGED, CONTINUE
from aiocoap.numbers.optionnumbers import OptionNumber
for i in range(256): Code(i)

class Remote:
    is_multicast=False; is_multicast_locally=False
    maximum_payload_size=1124
    scheme="coap"; hostinfo="h"; hostinfo_local="l"
    def __init__(self, n, exp=6): self.n=n; self.maximum_block_size_exp=exp
    def as_response_address(self): return self
    @property
    def blockwise_key(self): return ("R", self.n)
    def __repr__(self): return "R%d"%self.n

class RefServer:
    """independent RFC 7959 server at the request-interface boundary (one response per request pipe)"""
    def __init__(self, loop, remote, szx, body_out):
        self.loop=loop; self.remote=remote; self.szx=szx; self.body_in=None; self.acc=b""; self.body_out=body_out; self.log=[]
    async def recognize_remote(self, msg): return msg.remote is self.remote
    async def determine_remote(self, msg): return self.remote
    def request(self, pipe):
        req=pipe.request
        self.log.append((req.opt.block1, req.opt.block2, len(req.payload)))
        resp=Message(code=CHANGED); resp.remote=self.remote; resp.direction=Direction.INCOMING
        b1=req.opt.block1
        if b1 is not None:
            size=2**(b1.size_exponent+4)
            assert b1.block_number*size == len(self.acc), "non-contiguous"
            if b1.more: assert len(req.payload)==size
            else: assert len(req.payload)<=size
            self.acc+=req.payload
            szx=min(self.szx, b1.size_exponent)
            if b1.more:
                resp.code=CONTINUE; resp.opt.block1=(b1.block_number, True, szx)
                self.loop.call_soon(pipe.add_response, resp, True); return
            resp.opt.block1=(b1.block_number, False, szx)
            self.body_in=self.acc
        else:
            self.body_in=req.payload
        resp.payload=b""
        self.loop.call_soon(pipe.add_response, resp, True)

PATTERN = bytes((i*7+3) % 251 for i in range(4000))

def mk(szx, cl_exp, maxlen):
  def f(L: int) -> None:
    assert 0 <= L <= maxlen
    with SimLoop() as loop:
        ctx = Context(loop=loop)
        r = Remote(0, cl_exp)
        srv = RefServer(loop, r, szx, b"")
        ctx.request_interfaces.append(srv)
        body = PATTERN[:L]
        m = Message(code=PUT, payload=body); m.remote = r
        req = ctx.request(m)
        loop.run_ready()
        assert req.response.done()
        res = req.response.result()
        assert srv.body_in == body
  return f

print(run(mk(0, 0, 40), 200), flush=True)
print(run(mk(6, 6, 2500), 200), flush=True)
