import sys; sys.path.insert(0,'.')
import stubs2, chpatch
from runch import run
import aiocoap.oscore as o
from aiocoap.message import Message, Direction
from aiocoap.numbers.codes import Code, GET, POST, CONTENT, FETCH, CHANGED
from aiocoap.numbers.optionnumbers import OptionNumber
from aiocoap import error
for i in range(256): Code(i)
for i in range(300): OptionNumber(i)

class Ctx(o.CanProtect, o.CanUnprotect, o.SecurityContextUtils):
    def post_seqnoincrease(self): pass

def pair(idA=b"\x01", idB=b"", idctx=None):
    stubs2.ORACLE.table.clear(); stubs2.ORACLE.kdf.clear()
    out=[]
    for (s, r) in ((idA, idB), (idB, idA)):
        c=Ctx(); c.alg_aead=o.algorithms[o.DEFAULT_ALGORITHM]; c.hashfun=None
        c.sender_id=s; c.recipient_id=r; c.id_context=idctx
        c.derive_keys(b"salt", b"secret")
        c.sender_sequence_number=0
        c.recipient_replay_window=o.ReplayWindow(32, lambda: None); c.recipient_replay_window.initialize_empty()
        c.echo_recovery=None
        out.append(c)
    return out

def incoming(m):
    d=Message(code=m.code, payload=m.payload); d.opt=m.opt; d.direction=Direction.INCOMING; return d

SEQS=[0,255,256,65535,65536,2**24-1,2**24,2**32-1,2**32,2**40-2]
def tamper(seqi: int, where: int, pos: int, val: int) -> None:
    assert 0 <= seqi < len(SEQS) and 0 <= where < 2 and 0 <= pos < 12 and 0 <= val < 256
    a, b = pair(idctx=b"\x0a\x0b")
    a.sender_sequence_number = SEQS[seqi]
    req = Message(code=GET, uri_path=["x"], payload=b"hi")
    outer, rid = a.protect(req)
    m = incoming(outer)
    if where == 0:
        data = m.opt.oscore
        if pos >= len(data): return
        if data[pos] == val: return
        m.opt.oscore = data[:pos] + bytes([val]) + data[pos+1:]
    else:
        data = m.payload
        if pos >= len(data): return
        if data[pos] == val: return
        m.payload = data[:pos] + bytes([val]) + data[pos+1:]
    ok = False
    try:
        b.unprotect(m)
    except o.ProtectionInvalid:
        ok = True
    except Exception as e:
        ok = False
    assert ok

print(run(tamper, 600))
