import sys; sys.path.insert(0,'.')
from runch import run
import chpatch
import logging, socket, asyncio
logging.disable(logging.CRITICAL)
from simloop import SimLoop
exec(open('p_c10.py').read().split("class Hello")[0].split("from simloop import SimLoop")[1])
import aiocoap.transports.udp6 as udp6mod
_Base=UDP6EndpointAddress
class Addr(_Base):
    def __eq__(self, other): return isinstance(other, _Base) and _Base.__eq__(self, other)
    __hash__ = _Base.__hash__
udp6mod.UDP6EndpointAddress = Addr
def pkt():
    return socket.inet_pton(socket.AF_INET6, "2001:db8::2") + (0).to_bytes(4,"little")
class Slow(resource.Resource):
    def __init__(self): super().__init__(); self.cancelled=0; self.started=0
    async def render_get(self, request):
        self.started+=1
        try:
            await asyncio.sleep(500)
        except asyncio.CancelledError:
            self.cancelled+=1; raise
        return Message(payload=b"late")
def mkstack(loop, site):
    ctx=Context(loop=loop, serversite=site)
    mint=MessageInterfaceUDP6(("::",5683,0,0), logging.getLogger("x"), loop)
    tr=FakeTransport(mint, loop)
    def sendmsg(data, anc, flags, addr):
        if tr.closed: mint.error_received(OSError(9,"Bad file descriptor")); return
        tr.sent.append((loop.time(), data, addr))
    tr.sendmsg=sendmsg
    mint.connection_made(tr)
    tman=TokenManager(ctx); mman=MessageManager(tman); mint._ctx=mman; mman.message_interface=mint; tman.token_interface=mman
    ctx.request_interfaces.append(tman)
    return ctx, mint, tr, tman, mman
def f(t_shutdown: int, with_server_req: bool, with_client_req: bool) -> None:
    assert 0 <= t_shutdown <= 7000
    if with_server_req and t_shutdown < 100: return   # D8 tolerated
    with SimLoop() as loop:
        res=Slow(); site=resource.Site(); site.add_resource(["s"], res)
        ctx, mint, tr, tman, mman = mkstack(loop, site)
        reqf=None
        if with_server_req:
            m=Message(code=GET, _mtype=CON, _mid=77, _token=b"\x09", uri_path=["s"])
            mint.datagram_msg_received(m.encode(), [(socket.IPPROTO_IPV6, socket.IPV6_PKTINFO, pkt())], 0, ("2001:db8::1", 1000, 0, 0)); loop.run_ready()
        if with_client_req:
            q=Message(code=GET, uri_path=["x"]); q.remote=Addr(("2001:db8::5", 5683, 0, 0), mint)
            reqf=ctx.request(q, handle_blockwise=False).response; loop.run_ready()
        loop.advance_to(t_shutdown)
        t=loop.create_task(ctx.shutdown()); loop.run_ready()
        loop.advance_to(t_shutdown+3000)
        assert t.done() and t.exception() is None
        nsent=len(tr.sent)
        if reqf is not None:
            assert reqf.done() and isinstance(reqf.exception(), error.Error)
        if with_server_req and t_shutdown < 500:
            assert res.cancelled==1
        # late request fails immediately
        q2=Message(code=GET, uri_path=["y"]); q2.remote=Addr(("2001:db8::5", 5683, 0, 0), mint)
        late=ctx.request(q2, handle_blockwise=False).response; loop.run_ready()
        assert late.done() and isinstance(late.exception(), error.LibraryShutdown)
        loop.drain()
        assert len(tr.sent)==nsent
        assert loop.exceptions==[]
print(run(f, 900))
