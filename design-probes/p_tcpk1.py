import sys; sys.path.insert(0,'.')
from runch import run
import chpatch
from aiocoap.transports import tcp

def ref(d):
    # RFC 8323 3.2 reading
    if len(d) == 0: return None
    ln = d[0] >> 4; tkl = d[0] & 15
    ext = {13:1, 14:2, 15:4}.get(ln, 0)
    if len(d) < 1 + ext: return None
    if ext: ln = int.from_bytes(d[1:1+ext], "big") + {1:13, 2:269, 4:65805}[ext]
    return (2 + ext, tkl, ln)

def mk(lh, ls):
  def f(h: bytes, s: bytes) -> None:
    assert len(h) == lh and len(s) == ls
    r = tcp._extract_message_size(h)
    assert r == ref(h)
    r2 = tcp._extract_message_size(h + s)
    if r is not None:
        assert r2 == r              # prefix-determined
  return f
def enc(n: int) -> None:
    assert 0 <= n < 2**32 + 65805
    (nib, ext) = tcp._encode_length(n)
    hdr = bytes([(nib << 4) | 3]) + ext
    r = tcp._extract_message_size(hdr + b"\x00")
    assert r is not None and r[2] == n and r[1] == 3 and r[0] == 2 + len(ext)
    # minimal form
    assert (n < 13) == (nib < 13) and (13 <= n < 269) == (nib == 13) and (269 <= n < 65805) == (nib == 14)
for (lh, ls) in [(0,1),(1,0),(1,2),(2,1),(3,2),(5,1)]:
    print(lh, ls, run(mk(lh, ls), 120), flush=True)
print("enc", run(enc, 120))
