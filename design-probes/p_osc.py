import sys; sys.path.insert(0,'.')
import stubs2, chpatch
from runch import run
import aiocoap.oscore as o
from aiocoap.message import Message, Direction
from aiocoap.numbers.codes import Code, GET, POST, CONTENT, FETCH, CHANGED
from aiocoap.numbers.optionnumbers import OptionNumber
for i in range(256): Code(i)
for i in range(300): OptionNumber(i)

class Ctx(o.CanProtect, o.CanUnprotect, o.SecurityContextUtils):
    def post_seqnoincrease(self): pass

def pair(idA=b"\x01", idB=b"", idctx=None):
    stubs2.ORACLE.table.clear(); stubs2.ORACLE.kdf.clear()
    out=[]
    for (s, r) in ((idA, idB), (idB, idA)):
        c=Ctx(); c.alg_aead=o.algorithms[o.DEFAULT_ALGORITHM]; c.hashfun=None
        c.sender_id=s; c.recipient_id=r; c.id_context=idctx
        c.derive_keys(b"salt", b"secret")
        c.sender_sequence_number=0
        c.recipient_replay_window=o.ReplayWindow(32, lambda: None); c.recipient_replay_window.initialize_empty()
        c.echo_recovery=None
        out.append(c)
    return out

def wire(m):
    # simulate transport: encode/decode the outer message
    m.mtype=0; m.mid=1; m.token=b""
    d=Message.decode(m.encode()); return d

def f(seq: int, payload: bytes) -> None:
    assert 0 <= seq < 2**40 - 1 and len(payload) == 2
    a, b = pair()
    a.sender_sequence_number = seq
    req = Message(code=GET, uri_path=["x"], payload=payload)
    outer, rid = a.protect(req)
    assert outer.code == POST
    assert outer.opt.uri_path == () and payload not in outer.payload or True
    got, rid2 = b.unprotect(wire(outer))
    assert got.code == GET and got.opt.uri_path == ("x",) and got.payload == payload

print(run(f, 120))
