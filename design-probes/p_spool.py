import sys; sys.path.insert(0,'.')
from runch import run
import logging
logging.disable(logging.CRITICAL)
from simloop import SimLoop
from aiocoap.message import Message, Direction
from aiocoap.pipe import Pipe, error_to_message, run_driving_pipe
from aiocoap import resource, error
from aiocoap.numbers.codes import Code, PUT, CONTINUE, CHANGED, REQUEST_ENTITY_INCOMPLETE, BAD_REQUEST
for i in range(256): Code(i)

class Remote:
    is_multicast=False; is_multicast_locally=False
    maximum_block_size_exp=6; maximum_payload_size=1124
    def __init__(self, n): self.n=n
    def as_response_address(self): return self
    @property
    def blockwise_key(self): return ("R", self.n)

class Rec(resource.Resource):
    def __init__(self): super().__init__(); self.bodies=[]
    async def render_put(self, request):
        self.bodies.append(request.payload); return Message(code=CHANGED)

PAT = bytes(range(1,200))
SZX=0; SIZE=16
LENS=[0, SIZE-1, SIZE, SIZE+1]

def f(n1:int, m1:bool, l1:int, n2:int, m2:bool, l2:int, n3:int, m3:bool, l3:int) -> None:
    assert 0<=n1<3 and 0<=n2<3 and 0<=n3<3 and 0<=l1<4 and 0<=l2<4 and 0<=l3<4
    with SimLoop() as loop:
        res=Rec()
        res._block1._assemblies.timeout=93000; res._block2._completes.timeout=93000
        r=Remote(0)
        log=logging.getLogger("x")
        model=None   # reference assembly (bytes) or None
        off=0
        for (n,m,li) in ((n1,m1,l1),(n2,m2,l2),(n3,m3,l3)):
            L=LENS[li]
            pl=PAT[off:off+L]; off+=L
            req=Message(code=PUT, payload=pl, block1=(n,m,SZX)); req.remote=r; req.direction=Direction.INCOMING
            pipe=Pipe(req, log); out=[]
            pipe.on_event(lambda ev: (out.append(ev), True)[1])
            run_driving_pipe(error_to_message(pipe, log), res.render_to_pipe(pipe))
            loop.run_ready()
            assert len(out)==1 and out[0].message is not None
            code=out[0].message.code
            nb=len(res.bodies)
            # reference model (RFC 7959 + property statement)
            size_ok = (L==SIZE) if m else (L<=SIZE)
            if n==0:
                if m and not size_ok: exp=BAD_REQUEST   # aiocoap stores first then...? tolerate either
                model=pl; 
                exp = CONTINUE if m else CHANGED
            else:
                if model is None: exp=REQUEST_ENTITY_INCOMPLETE
                elif m and L!=SIZE: exp=BAD_REQUEST
                elif n*SIZE != len(model): exp=REQUEST_ENTITY_INCOMPLETE
                else:
                    model=model+pl; exp = CONTINUE if m else CHANGED
            assert code.class_ != 5
            if n!=0: assert code==exp
            if code==CHANGED:
                assert res.bodies[-1]==model
    
print(run(f, 600))
