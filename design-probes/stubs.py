import sys, types
def _mod(name, **attrs):
    m = types.ModuleType(name); m.__dict__.update(attrs); sys.modules[name] = m; return m
class _Any:
    def __init__(self,*a,**k): pass
    def __getattr__(self, n): return _Any()
    def __call__(self,*a,**k): return _Any()
def install():
    if 'cryptography' in sys.modules: return
    names = ["cryptography","cryptography.hazmat","cryptography.hazmat.primitives","cryptography.hazmat.primitives.ciphers",
     "cryptography.hazmat.primitives.ciphers.aead","cryptography.hazmat.primitives.kdf","cryptography.hazmat.primitives.kdf.hkdf",
     "cryptography.hazmat.primitives.hashes","cryptography.hazmat.backends","cryptography.exceptions",
     "cryptography.hazmat.primitives.asymmetric","cryptography.hazmat.primitives.asymmetric.utils","cryptography.hazmat.primitives.serialization",
     "cryptography.hazmat.primitives.asymmetric.ed25519","cryptography.hazmat.primitives.asymmetric.x25519","cryptography.hazmat.primitives.asymmetric.ec",
     "cryptography.hazmat.primitives.asymmetric.types",
     "cbor2","filelock"]
    for n in names:
        m=_mod(n)
        m.__getattr__ = lambda name: _Any()
    for n in names:
        if "." in n:
            p, c = n.rsplit(".",1); setattr(sys.modules[p], c, sys.modules[n])
    class InvalidTag(Exception): pass
    sys.modules["cryptography.exceptions"].InvalidTag = InvalidTag
