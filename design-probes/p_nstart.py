import sys; sys.path.insert(0,'.')
from runch import run
import logging
logging.disable(logging.CRITICAL)
import aiocoap.messagemanager as mmod
from aiocoap.messagemanager import MessageManager
from aiocoap.message import Message, Direction
from aiocoap.numbers.constants import TransportTuning
from aiocoap.numbers.types import CON, ACK, RST, NON
from aiocoap.numbers.codes import GET, EMPTY, Code
from aiocoap import error
for i in range(256): Code(i)

class Handle:
    def __init__(self, delay, cb, args): self.delay=delay; self.cb=cb; self.args=args; self.cancelled=False
    def cancel(self): self.cancelled=True
class Loop:
    def __init__(self): self.timers=[]
    def call_later(self, delay, cb, *args):
        h=Handle(delay, cb, args); self.timers.append(h); return h
class Remote:
    is_multicast=False; is_multicast_locally=False
    def __init__(self, n): self.n=n
    def as_response_address(self): return self
class TM:
    def __init__(self, loop): self.loop=loop; self.log=logging.getLogger("x"); self.errors=[]
    def dispatch_error(self, exc, remote): self.errors.append((type(exc).__name__, remote.n))
class MI:
    def __init__(self): self.sent=[]
    def send(self, msg): self.sent.append(msg)
class StubRandom:
    def randint(self, a, b): return 7
    def uniform(self, a, b): return a
mmod.random = StubRandom()
class TT(TransportTuning):
    ACK_TIMEOUT=2000; ACK_RANDOM_FACTOR=1; MAX_RETRANSMIT=1; EXCHANGE_LIFETIME=247000; EMPTY_ACK_DELAY=100

def mk(depth):
  def f(e0:int,e1:int,e2:int,e3:int,e4:int,e5:int) -> None:
    assert 0<=e0<12 and 0<=e1<12 and 0<=e2<12 and 0<=e3<12 and 0<=e4<12 and 0<=e5<12
    ev=[e0,e1,e2,e3,e4,e5][:depth]
    loop=Loop(); tm=TM(loop); mm=MessageManager(tm); mi=MI(); mm.message_interface=mi
    R=[Remote(0),Remote(1)]
    submitted={0:[],1:[]}   # CON messages submitted per remote, in order
    failed=set()
    nextid=0
    for e in ev:
        kind, r = divmod(e, 2)
        rem=R[r]
        if kind in (0,1):   # send CON / NON
            m=Message(code=GET, transport_tuning=TT()); m.remote=rem; m.token=bytes([nextid]); nextid+=1
            m.mtype = CON if kind==0 else NON
            before=len(mi.sent)
            mm.send_message(m, lambda: None)
            if kind==0: submitted[r].append(m)
            else: assert len(mi.sent)==before+1 and mi.sent[-1] is m     # NON never delayed
        elif kind in (2,3): # ACK / RST for the active exchange of that remote (if any)
            act=[mid for (rr,mid) in mm._active_exchanges if rr is rem]
            if not act: continue
            a=Message(code=EMPTY, _mtype=ACK if kind==2 else RST, _mid=act[0]); a.remote=rem; a.direction=Direction.INCOMING
            mm.dispatch_message(a)
        elif kind==4:       # retransmission timer of that remote fires
            hs=[h for ((rr,mid),(mon,h)) in mm._active_exchanges.items() if rr is rem]
            if not hs: continue
            h=hs[0]; assert not h.cancelled
            nerr=len(tm.errors)
            h.cb(*h.args)
            if len(tm.errors)>nerr:
                # give-up: token manager would fail all requests of that remote
                failed.update(id(m) for m in submitted[r])
        elif kind==5:       # transport error
            mm.dispatch_error(OSError(111,"x"), rem)
            failed.update(id(m) for m in submitted[r])
        # invariants after every event
        for rr in (0,1):
            act=[k for k in mm._active_exchanges if k[0] is R[rr]]
            assert len(act) <= 1
            assert (R[rr] in mm._backlogs) == (len(act)==1)
            sent_con=[m for m in mi.sent if m.mtype==CON and m.remote is R[rr]]
            # order of first transmissions follows submission order
            firsts=[]
            for m in sent_con:
                if not any(m is x for x in firsts): firsts.append(m)
            subs=[m for m in submitted[rr]]
            live=[m for m in subs if id(m) not in failed]
            # every first-sent is a prefix-respecting subsequence of submissions
            idx=[next(i for i,x in enumerate(subs) if x is m) for m in firsts]
            assert idx==sorted(idx)
            # none forgotten: each submitted CON is sent, queued, or failed
            queued=[m for (m,mon) in mm._backlogs.get(R[rr],[])]
            for m in subs:
                assert any(m is x for x in firsts) or any(m is x for x in queued) or id(m) in failed
  return f

for d in [2,3,4]:
    print(d, run(mk(d), 600), flush=True)
