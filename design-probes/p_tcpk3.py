import sys; sys.path.insert(0,'.')
from runch import run
import chpatch, logging
logging.disable(logging.CRITICAL)
from aiocoap.transports import tcp
from aiocoap.message import Message
from aiocoap.numbers.codes import Code, GET, CSM, CONTENT, PING
for i in range(256): Code(i)
class T:
    def __init__(self): self.written=[]; self.closed=False
    def write(self, b): self.written.append(b)
    def close(self): self.closed=True
    def get_extra_info(self, k): return {"sockname":("::1",5683,0,0), "peername":("::2",4000,0,0)}.get(k)
class Pool:
    _scheme="coap+tcp"; _default_port=5683
    def __init__(self): self.events=[]
    def _dispatch_incoming(self, conn, msg): self.events.append(("msg", int(msg.code), msg.token, msg.opt.encode(), msg.payload))
    def _dispatch_error(self, conn, exc): self.events.append(("err", type(exc).__name__))
def mkmsgs():
    m1=Message(code=GET, uri_path=["a"]); m1.token=b"\x01"
    m2=Message(code=CONTENT, payload=b"x"*11); m2.token=b"\x02\x03"      # length 12 -> nibble 12
    m3=Message(code=CONTENT, payload=b"y"*12); m3.token=b""               # length 13 -> extended
    m4=Message(code=PING); m4.token=b"\x07"
    m5=Message(code=0)
    return [Message(code=CSM), m1, m2, m3, m4, m5]
STREAM=b"".join(tcp._serialize(m) for m in mkmsgs()); N=len(STREAM)
def run_conn(chunks):
    pool=Pool(); t=T()
    conn=tcp.TcpConnection(pool, logging.getLogger("x"), None, is_server=True); conn.connection_made(t)
    for c in chunks: conn.data_received(c)
    return pool.events, t.written, t.closed, conn._spool
WHOLE=None
POS=list(range(N+1))
def f(i1: int, i2: int) -> None:
    assert 0 <= i1 <= i2 <= N
    c1=POS[i1]; c2=POS[i2]
    whole=run_conn([STREAM])
    parts=run_conn([STREAM[:c1], STREAM[c1:c2], STREAM[c2:]])
    assert parts==whole and not whole[2] and whole[3]==b""
print(N, run(f, 900))
