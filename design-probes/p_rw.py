import sys; sys.path.insert(0,'.')
import stubs; stubs.install()
from runch import run
import aiocoap.oscore as o

def mk(size):
  def step(index: int, bitfield: int, n: int, m: int) -> None:
    assert 0 <= index < 2**40 and 0 <= bitfield < 2**size and 0 <= n < 2**40 and 0 <= m < 2**40
    w = o.ReplayWindow(size, lambda: None)
    w._index = index; w._bitfield = bitfield
    before_n = w.is_valid(n); before_m = w.is_valid(m)
    if not before_n:
        raised = False
        try: w.strike_out(n)
        except ValueError: raised = True
        assert raised and w._index == index and w._bitfield == bitfield
        return
    w.strike_out(n)
    assert 0 <= w._bitfield < 2**size and w._index >= index
    assert not w.is_valid(n)
    after_m = w.is_valid(m)
    # never re-validate
    assert (not after_m) or before_m
    # numbers above everything seen stay valid
    if m > n and m >= index + size: assert after_m
    # others inside the new window unchanged
    if m != n and m >= w._index: assert after_m == before_m
  return step

for size in [4, 8, 32]:
    print(size, run(mk(size), 120), flush=True)
