import sys; sys.path.insert(0,'.')
from runch import run
import chpatch
import logging, asyncio
from simloop import SimLoop
import aiocoap.messagemanager as mmod
from aiocoap.protocol import Context
from aiocoap.tokenmanager import TokenManager
from aiocoap.messagemanager import MessageManager
from aiocoap.message import Message, Direction
from aiocoap import resource, error
from aiocoap.numbers.types import CON, ACK, RST, NON
from aiocoap.numbers.codes import Code, GET, PUT, EMPTY, CONTENT
for i in range(256): Code(i)
logging.disable(logging.CRITICAL)

class Remote:
    is_multicast=False; is_multicast_locally=False
    maximum_block_size_exp=6; maximum_payload_size=1124
    scheme="coap"; hostinfo="h"; hostinfo_local="l"
    def __init__(self, n): self.n=n
    def as_response_address(self): return self
    @property
    def blockwise_key(self): return ("R", self.n)
    def __repr__(self): return "R%d"%self.n
class MI:
    def __init__(self, loop): self.sent=[]; self.loop=loop
    def send(self, msg): self.sent.append((self.loop.time(), msg))
    async def shutdown(self): pass
class Echo(resource.Resource):
    def __init__(self): super().__init__(); self.calls=[]
    async def render_put(self, request):
        self.calls.append(request.payload)
        return Message(payload=request.payload)

def f(payload: bytes, con: bool) -> None:
    assert len(payload) == 3
    mid = 4242
    with SimLoop() as loop:
        site = resource.Site(); echo = Echo(); site.add_resource(["e"], echo)
        ctx = Context(loop=loop, serversite=site)
        tman = TokenManager(ctx); tman._token = 5; mman = MessageManager(tman); mman.message_id = 100
        mi = MI(loop); mman.message_interface = mi; tman.token_interface = mman
        ctx.request_interfaces.append(tman)
        r = Remote(0)
        req = Message(code=PUT, payload=payload, uri_path=["e"], _mtype=CON if con else NON, _mid=mid, _token=b"\x05")
        req.remote = r; req.direction = Direction.INCOMING
        mman.dispatch_message(req)
        loop.run_ready()
        assert echo.calls == [payload]
        assert len(mi.sent) == 1
        resp = mi.sent[0][1]
        assert resp.token == b"\x05" and resp.payload == payload and resp.code == Code.CHANGED
        if con:
            assert resp.mtype == ACK and resp.mid == mid
        else:
            assert resp.mtype == NON
        assert loop.exceptions == []

print(run(f, 120))
