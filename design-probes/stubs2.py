"""ideal-crypto stubs for importing aiocoap.oscore without cryptography/cbor2/filelock"""
import sys, types
import stubs
stubs.install()

# --- minimal deterministic CBOR encoder (RFC 8949 subset: uint, nint, bstr, tstr, array, bool, None)
def _head(major, n):
    if n < 24: return bytes([(major<<5)|n])
    if n < 256: return bytes([(major<<5)|24, n])
    if n < 65536: return bytes([(major<<5)|25]) + n.to_bytes(2,"big")
    if n < 2**32: return bytes([(major<<5)|26]) + n.to_bytes(4,"big")
    return bytes([(major<<5)|27]) + n.to_bytes(8,"big")
def dumps(o):
    if o is None: return b"\xf6"
    if o is True: return b"\xf5"
    if o is False: return b"\xf4"
    if isinstance(o, int): return _head(0,o) if o >= 0 else _head(1,-1-o)
    if isinstance(o, bytes): return _head(2,len(o)) + o
    if isinstance(o, str): e=o.encode("utf8"); return _head(3,len(e)) + e
    if isinstance(o, (list,tuple)): return _head(4,len(o)) + b"".join(dumps(x) for x in o)
    raise TypeError(type(o))
sys.modules["cbor2"].dumps = dumps

class InvalidTag(Exception): pass
sys.modules["cryptography.exceptions"].InvalidTag = InvalidTag
sys.modules["cryptography"].exceptions = sys.modules["cryptography.exceptions"]

class Oracle:
    """ideal AEAD: table of produced encryptions"""
    def __init__(self): self.table=[]; self.kdf=[]
ORACLE = Oracle()

class _IdealAEAD:
    def __init__(self, key, tag_length=16): self.key=key; self.taglen=tag_length
    def encrypt(self, nonce, data, aad):
        n = len(ORACLE.table)
        # ciphertext: same length as plaintext, content = opaque serial; tag = serial
        ct = bytes([0xC0 + (n & 0x1f)]) * len(data) + n.to_bytes(self.taglen, "big")
        ORACLE.table.append((self.key, nonce, aad, ct, data))
        return ct
    def decrypt(self, nonce, data, aad):
        for (k, n, a, ct, pt) in ORACLE.table:
            if k == self.key and n == nonce and a == aad and ct == data:
                return pt
        raise InvalidTag()
aead = sys.modules["cryptography.hazmat.primitives.ciphers.aead"]
aead.AESCCM = _IdealAEAD
aead.AESGCM = lambda key: _IdealAEAD(key, 16)
aead.ChaCha20Poly1305 = lambda key: _IdealAEAD(key, 16)

class HKDF:
    def __init__(self, algorithm, length, salt, info, backend=None):
        self.args=(length, salt, info)
    def derive(self, ikm):
        key=(self.args, ikm)
        for (k, v) in ORACLE.kdf:
            if k == key: return v
        n=len(ORACLE.kdf)+1
        v=bytes([n])*self.args[0]
        ORACLE.kdf.append((key, v)); return v
sys.modules["cryptography.hazmat.primitives.kdf.hkdf"].HKDF = HKDF
