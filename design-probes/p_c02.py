import sys; sys.path.insert(0,'.')
from runch import run
import logging, socket, asyncio
logging.disable(logging.CRITICAL)
from simloop import SimLoop
exec(open('p_c10.py').read().split("class Hello")[0].split("from simloop import SimLoop")[1])
import aiocoap.transports.udp6 as udp6mod
_Base=UDP6EndpointAddress
class Addr(_Base):
    def __eq__(self, other): return isinstance(other, _Base) and _Base.__eq__(self, other)
    __hash__ = _Base.__hash__
udp6mod.UDP6EndpointAddress = Addr
UDP6EndpointAddress = Addr
def pkt():
    return socket.inet_pton(socket.AF_INET6, "2001:db8::2") + (0).to_bytes(4,"little")
SRC=[("2001:db8::1", 5683, 0, 0), ("2001:db8::1", 5684, 0, 0), ("2001:db8::9", 5683, 0, 0), ("2001:db8::1", 5683, 0, 3)]
def f(tok: int, src: int, typ: int, midsel: int, dup: bool) -> None:
    assert 0 <= tok < 3 and 0 <= src < 4 and 0 <= typ < 3 and 0 <= midsel < 2
    with SimLoop() as loop:
        ctx=Context(loop=loop)
        mint=MessageInterfaceUDP6(("::",0,0,0), logging.getLogger("x"), loop)
        tr=FakeTransport(mint, loop); mint.connection_made(tr)
        tman=TokenManager(ctx); mman=MessageManager(tman); mint._ctx=mman; mman.message_interface=mint; tman.token_interface=mman
        ctx.request_interfaces.append(tman)
        req=Message(code=GET, uri_path=["x"]); req.remote=UDP6EndpointAddress(SRC[0], mint)
        r=ctx.request(req, handle_blockwise=False)
        ndone=[]
        r.response.add_done_callback(lambda fut: ndone.append(1))
        loop.run_ready()
        assert len(tr.sent)==1
        sent=Message.decode(tr.sent[0][0])
        token=[sent.token, b"\x77\x77", b""][tok]
        mid=[sent.mid, (sent.mid+1)&0xffff][midsel]
        resp=Message(code=CONTENT, payload=b"p", _mtype=[CON,NON,ACK][typ], _mid=mid, _token=token)
        n=len(tr.sent)
        for _ in range(2 if dup else 1):
            mint.datagram_msg_received(resp.encode(), [(socket.IPPROTO_IPV6, socket.IPV6_PKTINFO, pkt())], 0, SRC[src]); loop.run_ready()
        out=[(Message.decode(d), a) for (d,a) in tr.sent[n:]]
        matches = (tok==0 and src in (0,3))      # scope id is not part of endpoint identity
        if matches:
            assert r.response.done() and r.response.result().payload==b"p" and len(ndone)==1
            if typ==0:
                assert out[0][0].mtype==ACK and int(out[0][0].code)==0 and out[0][0].mid==mid
                if dup: assert out[1][0].mtype==RST and out[1][0].mid==mid   # retired token
        else:
            assert not r.response.done()
            if typ==0:
                assert len(out)==(2 if dup else 1) and all(o.mtype==RST and o.mid==mid and a[:2]==SRC[src][:2] for (o,a) in out)
            else:
                assert out==[]
        # finally everything completes exactly once
        loop.drain()
        acked_only = (not matches and typ==2 and midsel==0 and src in (0,3))   # exchange acknowledged, separate response never comes
        assert len(ndone) <= 1
        if not acked_only:
            assert r.response.done() and len(ndone)==1
            if not matches:
                assert isinstance(r.response.exception(), error.Error)
        assert loop.exceptions==[]
print(run(f, 900))
