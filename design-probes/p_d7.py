import sys; sys.path.insert(0,'.')
import logging, socket, asyncio
logging.disable(logging.CRITICAL)
from simloop import SimLoop
exec(open('p_c10.py').read().split("class Hello")[0].split("from simloop import SimLoop")[1])
class Obs(resource.ObservableResource):
    def __init__(self): super().__init__(); self.state=0; self.counts=[]
    def update_observation_count(self, n): self.counts.append(n)
    async def render_get(self, request): return Message(payload=b"%d" % self.state)
def pkt(): return socket.inet_pton(socket.AF_INET6, "2001:db8::2") + (0).to_bytes(4,"little")
for reqtype in (CON, NON):
  with SimLoop() as loop:
    res=Obs(); site=resource.Site(); site.add_resource(["o"], res)
    ctx=Context(loop=loop, serversite=site)
    mint=MessageInterfaceUDP6(("::",5683,0,0), logging.getLogger("x"), loop)
    tr=FakeTransport(mint, loop); mint.connection_made(tr)
    tman=TokenManager(ctx); mman=MessageManager(tman); mint._ctx=mman; mman.message_interface=mint; tman.token_interface=mman
    ctx.request_interfaces.append(tman)
    src=("2001:db8::1", 1000, 0, 0)
    def inject(m): mint.datagram_msg_received(m.encode(), [(socket.IPPROTO_IPV6, socket.IPV6_PKTINFO, pkt())], 0, src); loop.run_ready()
    inject(Message(code=GET, _mtype=reqtype, _mid=501, _token=b"\x09", uri_path=["o"], observe=0))
    res.state=1; res.updated_state(); loop.run_ready()
    out=[Message.decode(d) for (d,a) in tr.sent]
    notif=out[-1]
    inject(Message(code=EMPTY, _mtype=RST, _mid=notif.mid))
    n_before=len(tr.sent)
    res.state=2; res.updated_state(); loop.run_ready()
    print("request", reqtype, "notification type", notif.mtype, "observe", notif.opt.observe, "| counts", res.counts, "| further notifications after RST:", len(tr.sent)-n_before)
