import sys; sys.path.insert(0,'.')
from runch import run
import logging, socket, asyncio
logging.disable(logging.CRITICAL)
from simloop import SimLoop
exec(open('p_c10.py').read().split("class Hello")[0].split("from simloop import SimLoop")[1])
from aiocoap.numbers.codes import POST, DELETE, FETCH, PATCH, iPATCH
def pkt():
    return socket.inet_pton(socket.AF_INET6, "2001:db8::2") + (0).to_bytes(4,"little")
class BadErr(error.ConstructionRenderableError):
    code = Code.BAD_REQUEST
    def to_message(self): raise RuntimeError("secret-text-1")
class NoneErr(error.RenderableError):
    def to_message(self): return None
ERRS=[error.BadRequest, error.NotFound, error.UnsupportedContentFormat, error.ServiceUnavailable, error.BadOption]
class H(resource.Resource):
    def __init__(self, kind, h): super().__init__(); self.kind=kind; self.h=h
    async def _go(self, request):
        if self.h: await asyncio.sleep(self.h)
        k=self.kind
        if k==0: return Message(payload=b"ok")
        if k==1: return Message(code=Code.VALID)
        if k==2: raise ERRS[0]("diag")
        if k==3: raise ERRS[3]()
        if k==4: raise ValueError("secret-text-2")
        if k==5: return None
        if k==6: return 42
        if k==7: raise BadErr()
        if k==8: raise NoneErr()
        if k==9: raise KeyError("secret-text-3")
    render_get=_go; render_post=_go; render_put=_go; render_delete=_go; render_fetch=_go
METHODS=[1,2,3,4,5,6,7,8]
def f(kind: int, mi: int, con: bool, slow: bool, path: int) -> None:
    assert 0 <= kind < 10 and 0 <= mi < len(METHODS) and 0 <= path < 2
    with SimLoop() as loop:
        res=H(kind, 300 if slow else 0)
        site=resource.Site(); site.add_resource(["h"], res)
        ctx=Context(loop=loop, serversite=site)
        mint=MessageInterfaceUDP6(("::",5683,0,0), logging.getLogger("x"), loop)
        tr=FakeTransport(mint, loop); mint.connection_made(tr)
        tman=TokenManager(ctx); mman=MessageManager(tman); mint._ctx=mman; mman.message_interface=mint; tman.token_interface=mman
        ctx.request_interfaces.append(tman)
        m=Message(code=METHODS[mi], _mtype=CON if con else NON, _mid=77, _token=b"\x09", uri_path=[["h"],["nope"]][path][:])
        mint.datagram_msg_received(m.encode(), [(socket.IPPROTO_IPV6, socket.IPV6_PKTINFO, pkt())], 0, ("2001:db8::1", 1000, 0, 0))
        loop.run_ready()
        # ack any CON separate response so it is not retransmitted
        for _ in range(3):
            loop.advance_to(loop.time()+200)
            for k in list(mman._active_exchanges):
                a=Message(code=EMPTY, _mtype=ACK, _mid=k[1])
                mint.datagram_msg_received(a.encode(), [(socket.IPPROTO_IPV6, socket.IPV6_PKTINFO, pkt())], 0, ("2001:db8::1", 1000, 0, 0)); loop.run_ready()
        loop.drain()
        out=[Message.decode(d) for (d,a) in tr.sent]
        finals=[o for o in out if int(o.code)!=0]
        assert len(finals)==1 and finals[0].token==b"\x09"
        fin=finals[0]; meth=METHODS[mi]
        if path==1: exp=Code.NOT_FOUND
        elif meth in (6,7,8): exp=Code.METHOD_NOT_ALLOWED
        elif kind==0: exp={1:Code.CONTENT,5:Code.CONTENT,4:Code.DELETED}.get(meth, Code.CHANGED)
        elif kind==1: exp=Code.VALID
        elif kind==2: exp=Code.BAD_REQUEST
        elif kind==3: exp=Code.SERVICE_UNAVAILABLE
        else: exp=Code.INTERNAL_SERVER_ERROR
        assert fin.code==exp
        if exp==Code.INTERNAL_SERVER_ERROR:
            assert fin.payload==b"" and not any(b"secret" in d for (d,a) in tr.sent)
        if kind==2 and path==0 and meth<=5: assert fin.payload==b"diag"
        assert loop.exceptions==[]
print(run(f, 900))
