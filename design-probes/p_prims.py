import sys; sys.path.insert(0,'.')
from runch import run
import struct

def f_from_bytes(b: bytes) -> int:
    """
    pre: len(b) == 2
    post: _ != 0x1234
    """
    return int.from_bytes(b, "big")

def f_to_bytes(x: int) -> bytes:
    """
    pre: 0 <= x < 65536
    post: _ != bytes([0x12, 0x34])
    """
    return x.to_bytes(2, "big")

def f_bitlen(x: int) -> bytes:
    """
    pre: 0 <= x < 2**32
    post: int.from_bytes(_, "big") == x and (len(_) == 0 or _[0] != 0)
    """
    return x.to_bytes((x.bit_length() + 7) // 8, "big")

def f_utf8(b: bytes) -> bool:
    """
    pre: len(b) == 2
    post: _
    """
    try:
        b.decode("utf-8")
    except UnicodeDecodeError:
        return False
    return True

def f_struct(b: bytes) -> int:
    """
    pre: len(b) == 4
    post: _ != 0x4321
    """
    (a, c, mid) = struct.unpack("!BBH", b[:4])
    return mid

def f_shift(x: int, n: int) -> int:
    """
    pre: 0 <= x < 2**32 and 0 <= n < 32
    post: _ != 12345
    """
    return (x >> n) & 0xffff

for fn in [f_from_bytes, f_to_bytes, f_bitlen, f_utf8, f_struct, f_shift]:
    print(fn.__name__, run(fn, 30))
