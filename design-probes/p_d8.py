import sys; sys.path.insert(0,'.')
import logging, asyncio, socket
logging.basicConfig(level=logging.ERROR)
from simloop import SimLoop
exec(open('p_udp6.py').read().split("def f(con")[0].split("from runch import run")[1])
class Slow(resource.Resource):
    async def render_get(self, request):
        await asyncio.sleep(500); return Message(payload=b"late")
with SimLoop() as loop:
    site=resource.Site(); site.add_resource(["s"], Slow())
    ctx=Context(loop=loop, serversite=site)
    mint=MessageInterfaceUDP6(("::",5683,0,0), logging.getLogger("x"), loop)
    tr=FakeTransport(mint, loop); 
    def sendmsg(data, anc, flags, addr):
        if tr.closed:
            # mimic RecvmsgSelectorDatagramTransport.sendmsg on a closed socket
            mint.error_received(OSError(9, "Bad file descriptor")); return
        tr.sent.append((data, addr))
    tr.sendmsg=sendmsg
    mint.connection_made(tr)
    tman=TokenManager(ctx); mman=MessageManager(tman); mint._ctx=mman; mman.message_interface=mint; tman.token_interface=mman
    ctx.request_interfaces.append(tman)
    req=Message(code=GET, uri_path=["s"], _mtype=CON, _mid=77, _token=b"\x09")
    mint.datagram_msg_received(req.encode(), [(socket.IPPROTO_IPV6, socket.IPV6_PKTINFO, PKT)], 0, ("2001:db8::1", 1000, 0, 0))
    loop.run_ready()
    loop.advance_to(50)
    t=loop.create_task(ctx.shutdown()); loop.run_ready()
    print("shutdown done:", t.done(), t.exception() if t.done() else None, "sent so far:", len(tr.sent), "timers left:", [(h._when, getattr(h._callback,'__name__',h._callback)) for h in loop.pending_timers()])
    try:
        loop.drain()
    except BaseException as e:
        print("raised out of timer:", type(e).__name__, e)
    print("sent after:", len(tr.sent), "loop exceptions:", loop.exceptions)
