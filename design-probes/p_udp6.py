import sys; sys.path.insert(0,'.')
from runch import run
import logging
logging.disable(logging.CRITICAL)
from simloop import SimLoop
import aiocoap.messagemanager as mmod, aiocoap.tokenmanager as tmod
from aiocoap.protocol import Context
from aiocoap.tokenmanager import TokenManager
from aiocoap.messagemanager import MessageManager
from aiocoap.message import Message, Direction
from aiocoap.numbers.constants import TransportTuning
from aiocoap.transports.udp6 import MessageInterfaceUDP6, UDP6EndpointAddress
from aiocoap import resource, error
from aiocoap.numbers.types import CON, ACK, RST, NON
from aiocoap.numbers.codes import Code, GET, PUT, EMPTY, CONTENT
for i in range(256): Code(i)
TransportTuning.ACK_TIMEOUT=2000; TransportTuning.ACK_RANDOM_FACTOR=1; TransportTuning.MAX_LATENCY=100000; TransportTuning.EMPTY_ACK_DELAY=100; TransportTuning.MAX_RETRANSMIT=2
class StubRandom:
    def randint(self,a,b): return 7
    def uniform(self,a,b): return a
mmod.random=StubRandom(); tmod.random=StubRandom()

class FakeSock:
    def getsockname(self): return ("::", 5683, 0, 0)
class FakeTransport:
    def __init__(self, proto, loop): self.sent=[]; self.closed=False; self.proto=proto; self.loop=loop
    def sendmsg(self, data, ancdata, flags, address): 
        assert not self.closed
        self.sent.append((data, address))
    def get_extra_info(self, k): return FakeSock() if k=="socket" else None
    def close(self):
        self.closed=True; self.loop.call_soon(self.proto.connection_lost, None)
class Hello(resource.Resource):
    async def render_get(self, request): return Message(payload=b"hi")

PKT = bytes(16) + (0).to_bytes(4,"little")   # in6_pktinfo: ::, ifindex 0  -> not multicast

def f(con: bool, port: int) -> None:
    assert port in (1000, 1001)
    with SimLoop() as loop:
        site=resource.Site(); site.add_resource(["h"], Hello())
        ctx=Context(loop=loop, serversite=site)
        mint=MessageInterfaceUDP6(("::",5683,0,0), logging.getLogger("x"), loop)
        tr=FakeTransport(mint, loop); mint.connection_made(tr)
        tman=TokenManager(ctx); mman=MessageManager(tman); mint._ctx=mman; mman.message_interface=mint; tman.token_interface=mman
        ctx.request_interfaces.append(tman)
        req=Message(code=GET, uri_path=["h"], _mtype=CON if con else NON, _mid=77, _token=b"\x09")
        data=req.encode()
        import socket
        mint.datagram_msg_received(data, [(socket.IPPROTO_IPV6, socket.IPV6_PKTINFO, PKT)], 0, ("2001:db8::1", port, 0, 0))
        loop.run_ready()
        assert len(tr.sent)==1
        m=Message.decode(tr.sent[0][0])
        assert m.payload==b"hi" and m.token==b"\x09" and tr.sent[0][1][:2]==("2001:db8::1", port)
        assert (m.mtype==ACK and m.mid==77) if con else (m.mtype==NON)
        t=loop.create_task(ctx.shutdown()); loop.run_ready(); loop.drain()
        assert t.done() and t.exception() is None
print(run(f, 120))
