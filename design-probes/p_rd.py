import sys; sys.path.insert(0,'.')
from runch import run
import logging
logging.disable(logging.CRITICAL)
from simloop import SimLoop
from aiocoap.message import Message, Direction
from aiocoap.pipe import Pipe, error_to_message, run_driving_pipe
from aiocoap import resource, error
from aiocoap.numbers.codes import Code, GET, POST, PUT, DELETE, CREATED, CHANGED
from aiocoap.numbers.contentformat import ContentFormat
from aiocoap.cli import rd
for i in range(256): Code(i)

class Remote:
    is_multicast=False; is_multicast_locally=False
    maximum_block_size_exp=6; maximum_payload_size=1124
    scheme="coap"; hostinfo="[2001:db8::1]"; uri="coap://[2001:db8::1]"; uri_base=uri
    def as_response_address(self): return self
    blockwise_key=("R",0)

def call(loop, res, msg):
    msg.remote=Remote(); msg.direction=Direction.INCOMING
    log=logging.getLogger("x")
    pipe=Pipe(msg, log); out=[]
    pipe.on_event(lambda ev: (out.append(ev), True)[1])
    run_driving_pipe(error_to_message(pipe, log), res.render_to_pipe(pipe))
    loop.run_ready()
    assert len(out)==1 and out[0].message is not None
    return out[0].message

LTS=["60","abc","100"]
def f(lt1: int, lt2: int, dt: int) -> None:
    assert 0<=lt1<3 and 0<=lt2<3 and 0<=dt<=200
    with SimLoop() as loop:
        common=rd.CommonRD()
        d=rd.DirectoryResource(common_rd=common)
        lookup=rd.EndpointLookupInterface(common_rd=common)
        def reg(lt):
            m=Message(code=POST, payload=b"</a>;rt=x", content_format=ContentFormat.LINKFORMAT, uri_query=["ep=e1","lt="+LTS[lt]])
            return call(loop, d, m)
        def eps():
            r=call(loop, lookup, Message(code=GET))
            return r.payload
        r1=reg(lt1)
        before=eps()
        loop.advance_to(dt*1000 if False else dt)
        r2=reg(lt2)
        after=eps()
        if r2.code.class_==4:
            assert before==after
print(run(f, 300))
