"""prototype: AST -> z3 BV64 symbolic interpreter for small integer methods (path enumeration)"""
import ast, inspect, textwrap, z3, time, sys
W=int(__import__('os').environ.get('W','64'))
class Raise(Exception):
    def __init__(self, name): self.name=name
class Path:
    def __init__(self, cond, state, local, guards): self.cond=cond; self.state=state; self.local=local; self.guards=guards
def bv(v): return z3.BitVecVal(v, W) if isinstance(v,int) and not isinstance(v,bool) else v
class Interp:
    def __init__(self, classsrc, clsname):
        tree=ast.parse(classsrc)
        cls=[n for n in ast.walk(tree) if isinstance(n, ast.ClassDef) and n.name==clsname][0]
        self.methods={n.name:n for n in cls.body if isinstance(n, ast.FunctionDef)}
        self.solver_checks=0
    # returns list of (pathcond, outcome, state) ; outcome = ('return', val) | ('raise', name)
    def call(self, name, state, args, cond=z3.BoolVal(True), guards=None):
        fn=self.methods[name]
        params=[a.arg for a in fn.args.args][1:]
        local=dict(zip(params,args))
        return self.block(fn.body, Path(cond, dict(state), local, list(guards or [])))
    def feasible(self, cond):
        s=z3.Solver(); s.add(self.pre, cond); self.solver_checks+=1
        return s.check()!=z3.unsat
    def block(self, stmts, p):
        # returns list of (Path, outcome or None)
        if not stmts: return [(p,None)]
        st=stmts[0]; rest=stmts[1:]
        outs=[]
        for (q,o) in self.stmt(st,p):
            if o is not None: outs.append((q,o))
            else: outs.extend(self.block(rest,q))
        return outs
    def stmt(self, st, p):
        if isinstance(st, ast.Expr):
            if isinstance(st.value, ast.Constant): return [(p,None)]   # docstring
            if isinstance(st.value, ast.Call):
                f=st.value.func
                if isinstance(f, ast.Attribute) and isinstance(f.value, ast.Name) and f.value.id=="self":
                    if f.attr in self.methods:
                        args=[self.expr(a,p) for a in st.value.args]
                        res=[]
                        for (q,o) in self.call_inline(f.attr,p,args):
                            res.append((q, o if (o and o[0]=='raise') else None))
                        return res
                    else:
                        p.state.setdefault("__calls__",[]); p.state["__calls__"]=p.state["__calls__"]+[f.attr]
                        return [(p,None)]
            raise NotImplementedError(ast.dump(st))
        if isinstance(st, ast.Return):
            return [(p,('return', self.expr(st.value,p) if st.value else None))]
        if isinstance(st, ast.Raise):
            exc=st.exc; name=exc.func.id if isinstance(exc, ast.Call) else exc.id
            return [(p,('raise',name))]
        if isinstance(st, ast.Assert):
            c=self.tobool(self.expr(st.test,p))
            outs=[]
            pt=Path(z3.And(p.cond,c),p.state,p.local,p.guards)
            pf=Path(z3.And(p.cond,z3.Not(c)),p.state,p.local,p.guards)
            if self.feasible(pf.cond): outs.append((pf,('raise','AssertionError')))
            if self.feasible(pt.cond): outs.append((pt,None))
            return outs
        if isinstance(st, ast.If):
            c=self.tobool(self.expr(st.test,p))
            outs=[]
            for (cc,body) in ((c,st.body),(z3.Not(c),st.orelse)):
                q=Path(z3.And(p.cond,cc),dict(p.state),dict(p.local),list(p.guards))
                if self.feasible(q.cond): outs.extend(self.block(body,q))
            return outs
        if isinstance(st,(ast.Assign,ast.AugAssign)):
            if isinstance(st,ast.Assign):
                tgt=st.targets[0]; val=self.expr(st.value,p)
            else:
                tgt=st.target; val=self.binop(st.op,self.expr(st.target,p),self.expr(st.value,p),p)
            if isinstance(tgt,ast.Name): p.local[tgt.id]=val
            elif isinstance(tgt,ast.Attribute) and tgt.value.id=="self": p.state[tgt.attr]=val
            else: raise NotImplementedError(ast.dump(tgt))
            return [(p,None)]
        raise NotImplementedError(ast.dump(st))
    def call_inline(self,name,p,args):
        fn=self.methods[name]; params=[a.arg for a in fn.args.args][1:]
        q=Path(p.cond,p.state,dict(zip(params,args)),p.guards)
        res=[]
        for (r,o) in self.block(fn.body,q):
            res.append((Path(r.cond,r.state,dict(p.local),r.guards),o or ('return',None)))
        return res
    def tobool(self,v):
        if isinstance(v,bool): return z3.BoolVal(v)
        if z3.is_bool(v): return v
        return bv(v)!=0
    def binop(self,op,a,b,p):
        a,b=bv(a),bv(b)
        if isinstance(op,ast.Add): p.guards.append(z3.BVAddNoOverflow(a,b,True)); p.guards.append(z3.BVAddNoUnderflow(a,b)); return a+b
        if isinstance(op,ast.Sub): p.guards.append(z3.BVSubNoOverflow(a,b)); p.guards.append(z3.BVSubNoUnderflow(a,b,True)); return a-b
        if isinstance(op,ast.RShift): p.guards.append(b>=0); return z3.If(z3.UGE(b,W), bv(0), z3.LShR(a,b))   # non-negative a
        if isinstance(op,ast.LShift):
            p.guards.append(z3.And(b>=0, z3.ULT(b,W-1)))
            p.guards.append(z3.LShR(a<<b,b)==a)
            return a<<b
        if isinstance(op,ast.BitAnd): return a&b
        if isinstance(op,ast.BitOr): return a|b
        raise NotImplementedError(op)
    def expr(self,e,p):
        if isinstance(e,ast.Constant): return e.value
        if isinstance(e,ast.Name): return p.local[e.id]
        if isinstance(e,ast.Attribute) and isinstance(e.value,ast.Name) and e.value.id=="self": return p.state[e.attr]
        if isinstance(e,ast.BinOp): return self.binop(e.op,self.expr(e.left,p),self.expr(e.right,p),p)
        if isinstance(e,ast.UnaryOp) and isinstance(e.op,ast.Not): return z3.Not(self.tobool(self.expr(e.operand,p)))
        if isinstance(e,ast.Compare):
            l=self.expr(e.left,p); cs=[]
            for op,r in zip(e.ops,e.comparators):
                r=self.expr(r,p); a,b=bv(l),bv(r)
                if r is None or l is None:
                    cs.append(z3.BoolVal((l is r) if isinstance(op,(ast.Is,ast.Eq)) else (l is not r)))
                else:
                    cs.append({ast.Lt:lambda:a<b, ast.LtE:lambda:a<=b, ast.Gt:lambda:a>b, ast.GtE:lambda:a>=b, ast.Eq:lambda:a==b, ast.NotEq:lambda:a!=b}[type(op)]())
                l=r
            return z3.And(*cs) if len(cs)>1 else cs[0]
        if isinstance(e,ast.Call) and isinstance(e.func,ast.Attribute) and isinstance(e.func.value,ast.Name) and e.func.value.id=="self":
            res=self.call_inline(e.func.attr,p,[self.expr(a,p) for a in e.args])
            # merge returned values with ite (pure methods only)
            val=None
            for (r,o) in reversed(res):
                assert o[0]=='return'
                v=o[1]; v = self.tobool(v) if (z3.is_bool(v) or isinstance(v,bool)) else bv(v)
                val = v if val is None else z3.If(r.cond, v, val)
            return val
        raise NotImplementedError(ast.dump(e))

if __name__=="__main__":
    src=open("/repo/aiocoap/oscore.py").read()
    I=Interp(src,"ReplayWindow")
    size=int(sys.argv[1]) if len(sys.argv)>1 else 32
    index,bf,n,m=[z3.BitVec(x,W) for x in ("index","bf","n","m")]
    lim=bv(2**40)
    I.pre=z3.And(index>=0,index<lim,n>=0,n<lim,m>=0,m<lim,bf>=0,z3.ULT(bf,bv(2**size)))
    st={"_index":index,"_bitfield":bf,"_size":size}
    t=time.time()
    def valid(state,x):
        return I.expr(ast.parse("self.is_valid(x)").body[0].value, Path(z3.BoolVal(True),state,{"x":x},[]))
    pre_n=valid(st,n); pre_m=valid(st,m)
    paths=I.call("strike_out",st,[n])
    ok=True; nq=0
    for (p,o) in paths:
        o = o or ('return', None)
        s=z3.Solver(); s.add(I.pre,p.cond)
        if o[0]=='raise':
            # must be exactly the invalid case
            s.add(pre_n); r=s.check(); nq+=1
            print("raise",o[1],"only when invalid:", r)
            ok&=(r==z3.unsat)
        else:
            post_n=valid(p.state,n); post_m=valid(p.state,m)
            props=z3.And(z3.Not(post_n), z3.Implies(post_m,pre_m),
                         z3.Implies(z3.And(m>n, m>=index+size), post_m),
                         z3.Implies(z3.And(m!=n, m>=p.state["_index"]), post_m==pre_m),
                         z3.ULT(p.state["_bitfield"],bv(2**size)), p.state["_index"]>=index,
                         *p.guards)
            s.add(z3.Not(props)); r=s.check(); nq+=1
            print("return path: negated post:", r, "calls:", p.state.get("__calls__"))
            if r==z3.sat: print(s.model())
            ok&=(r==z3.unsat)
    print("size",size,"ok",ok,"paths",len(paths),"queries",nq+I.solver_checks,"t",round(time.time()-t,2))
