import asyncio, collections, heapq
from asyncio import events

class SimLoop(asyncio.AbstractEventLoop):
    def __init__(self):
        self._now = 0
        self._ready = collections.deque()
        self._timers = []   # list of TimerHandle (unsorted; small)
        self.exceptions = []
        self._seq = 0
    # basic
    def time(self): return self._now
    def get_debug(self): return False
    def is_running(self): return True
    def is_closed(self): return False
    def call_exception_handler(self, context): self.exceptions.append(context)
    def create_future(self): return asyncio.Future(loop=self)
    def create_task(self, coro, *, name=None, context=None):
        return asyncio.Task(coro, loop=self, name=name)
    def call_soon(self, callback, *args, context=None):
        h = events.Handle(callback, args, self, context)
        self._ready.append(h); return h
    def call_later(self, delay, callback, *args, context=None):
        return self.call_at(self._now + delay, callback, *args, context=context)
    def call_at(self, when, callback, *args, context=None):
        h = events.TimerHandle(when, callback, args, self, context)
        self._timers.append(h); h._scheduled = True; return h
    def _timer_handle_cancelled(self, handle): pass
    # driving
    def run_ready(self, limit=10000):
        n = 0
        while self._ready:
            h = self._ready.popleft()
            if not h._cancelled:
                h._run()
            n += 1
            assert n < limit
    def pending_timers(self):
        self._timers = [t for t in self._timers if not t._cancelled]
        return self._timers
    def fire(self, handle):
        self._timers.remove(handle)
        if handle._when > self._now: self._now = handle._when
        handle._run()
        self.run_ready()
    def __enter__(self):
        events._set_running_loop(self); return self
    def __exit__(self, *a):
        events._set_running_loop(None)

def _advance_to(self, t):
    """run every timer due at or before t (deadline order, FIFO on ties), then set now=t"""
    while True:
        self.run_ready()
        due = [h for h in self.pending_timers() if h._when <= t]
        if not due: break
        first = due[0]
        for h in due[1:]:
            if h._when < first._when: first = h
        self.fire(first)
    if t > self._now: self._now = t
    self.run_ready()
SimLoop.advance_to = _advance_to
def _drain(self, limit=50):
    n=0
    while True:
        self.run_ready()
        p=self.pending_timers()
        if not p: break
        first=p[0]
        for h in p[1:]:
            if h._when < first._when: first=h
        self.fire(first); n+=1
        assert n<limit
SimLoop.drain=_drain
