import sys; sys.path.insert(0,'.')
import stubs2, chpatch
from runch import run
import aiocoap.oscore as o

class Crash(BaseException): pass

class FakeFS:
    def __init__(self, files, crash_at=None):
        self.durable=dict(files); self.volatile={}; self.n=0; self.crash_at=crash_at; self.tmpcount=0
    def effect(self):
        if self.crash_at is not None and self.n == self.crash_at: raise Crash()
        self.n+=1
    # view
    def exists(self, p): return p in self.durable
class FakeFile:
    def __init__(self, fs, name, mode): self.fs=fs; self.name=name; self.mode=mode; self.buf=None
    def __enter__(self): return self
    def __exit__(self,*a): return False
    def write(self, data): self.fs.effect(); self.buf=data
    def flush(self): pass
    def fileno(self): return self
    def read(self): return self.fs.durable[self.name]
class JSON:
    @staticmethod
    def dumps(d): return Doc(d)
    @staticmethod
    def load(f):
        v=f.read()
        return v.d if isinstance(v, Doc) else v
class Doc:
    def __init__(self, d): self.d=d
    def encode(self, enc): return self
def install(fs):
    class OS:
        path = __import__("os").path
        @staticmethod
        def fsync(f):
            fs.effect(); fs.durable[f.name]=f.buf
        @staticmethod
        def replace(a,b):
            fs.effect()
            fs.durable[b]=fs.durable.pop(a)
        @staticmethod
        def unlink(p): fs.effect(); fs.durable.pop(p, None)
    class TMP:
        @staticmethod
        def mkstemp(dir, prefix, suffix, text):
            fs.effect(); fs.tmpcount+=1; n="%s/%stmp%d%s"%(dir,prefix,fs.tmpcount,suffix); fs.durable[n]=None; return (n, n)
    class IO:
        @staticmethod
        def open(hand, mode): return FakeFile(fs, hand, mode)
    def _open(p, *a):
        if p not in fs.durable or fs.durable[p] is None: raise FileNotFoundError(p)
        return FakeFile(fs, p, "r")
    o.os=OS; o.tempfile=TMP; o.io=IO; o.open=_open; o.json=JSON
    class FL:
        def __init__(self, p): self.lock_file=p
        def acquire(self, timeout=None): pass
        def release(self): pass
    o.filelock.FileLock=FL

SETTINGS={"sender-id_hex":"01","recipient-id_hex":"","secret_ascii":"s"}
def ctx(fs):
    install(fs)
    return o.FilesystemSecurityContext("/c")

def f(s: int, nprot: int, crash: int) -> None:
    assert 0 <= s < 2**40 - 100 and 1 <= nprot <= 3 and 0 <= crash <= 12
    files={"/c/settings.json": SETTINGS}
    if s > 0: files["/c/sequence.json"] = {"next-to-send": s, "received": {"index":0,"bitfield":0}}
    fs=FakeFS(files)
    c=ctx(fs)
    fs.crash_at=fs.n+crash
    issued=[]
    try:
        for i in range(nprot):
            issued.append(c.new_sequence_number())
    except Crash:
        pass
    c.lockfile=None  # no destructor writes after crash
    assert all(issued[i] < issued[i+1] for i in range(len(issued)-1))
    assert all(x >= s for x in issued)
    # reload after (possible) crash from durable state
    fs2=FakeFS({k:v for k,v in fs.durable.items()})
    c2=ctx(fs2)
    nxt=c2.new_sequence_number()
    c2.lockfile=None
    assert all(nxt > x for x in issued)

print(run(f, 300))
