import sys; sys.path.insert(0,'.')
from runch import run
import logging
import aiocoap.messagemanager as mmod
from aiocoap.messagemanager import MessageManager
from aiocoap.message import Message, Direction
from aiocoap.numbers.constants import TransportTuning
from aiocoap.numbers.types import CON, ACK, RST, NON
from aiocoap.numbers.codes import GET, EMPTY
from aiocoap import error

class Handle:
    def __init__(self, delay, when, cb, args): self.delay=delay; self.when=when; self.cb=cb; self.args=args; self.cancelled=False
    def cancel(self): self.cancelled=True
class Loop:
    def __init__(self): self.now=0; self.timers=[]
    def call_later(self, delay, cb, *args):
        h=Handle(delay, self.now+delay, cb, args); self.timers.append(h); return h
class Remote:
    is_multicast=False; is_multicast_locally=False
    def __init__(self, n): self.n=n
    def as_response_address(self): return self
    def __repr__(self): return "R%d"%self.n
class TM:
    def __init__(self, loop): self.loop=loop; self.log=logging.getLogger("x"); self.errors=[]
    def dispatch_error(self, exc, remote): self.errors.append((self.loop.now, exc, remote))
class MI:
    def __init__(self, loop): self.sent=[]; self.loop=loop
    def send(self, msg): self.sent.append((self.loop.now, msg, (msg.mtype, msg.mid, msg.token, msg.code, msg.payload)))
class StubRandom:
    def __init__(self): self.draw=None
    def randint(self, a, b): return 7
    def uniform(self, a, b):
        assert self.draw is not None
        return self.draw
R = StubRandom()
mmod.random = R

def mk(maxre, fct):
  def f(ack_timeout: int, t0: int, ack_at: int) -> None:
    assert 1 <= ack_timeout <= 100000 and 0 <= ack_at <= maxre+1
    assert ack_timeout <= t0 <= ack_timeout*fct
    R.draw = t0
    class TT(TransportTuning):
        ACK_TIMEOUT = ack_timeout
        ACK_RANDOM_FACTOR = fct
        MAX_RETRANSMIT = maxre
    loop=Loop(); tm=TM(loop); mm=MessageManager(tm); mm.message_interface=MI(loop)
    r=Remote(0)
    m=Message(code=GET, transport_tuning=TT()); m.remote=r; m.token=b"\x01"; m.mtype=CON
    rst=[]
    mm.send_message(m, lambda: rst.append(1))
    fired=0
    delays=[]
    while True:
        live=[h for h in loop.timers if not h.cancelled]
        loop.timers=[]
        if not live: break
        assert len(live)==1
        h=live[0]
        if fired == ack_at:
            a=Message(code=EMPTY, _mtype=ACK, _mid=m.mid); a.remote=r
            a.direction=Direction.INCOMING
            mm.dispatch_message(a)
            continue
        delays.append(h.delay)
        loop.now=h.when
        h.cb(*h.args)
        fired+=1
    sent=mm.message_interface.sent
    n=len(sent)
    assert n == min(ack_at, maxre) + 1
    assert all(s[1] is m and s[2]==sent[0][2] for s in sent)
    assert delays[:1] in ([], [t0])
    for i in range(1,len(delays)):
        assert delays[i] == 2*delays[i-1]
    if ack_at > maxre:
        assert len(tm.errors)==1 and isinstance(tm.errors[0][1], error.ConRetransmitsExceeded) and isinstance(tm.errors[0][1], error.NetworkError)
        assert tm.errors[0][0] == t0*(2**(maxre+1)-1)
        assert tm.errors[0][0] <= TT().MAX_TRANSMIT_WAIT
    else:
        assert tm.errors==[]
    assert mm._active_exchanges == {}
  return f

for k in [0,1,4]:
    print(k, run(mk(k, 2), 120), flush=True)
