import sys; sys.path.insert(0,'.')
from runch import run
from aiocoap.message import Message
from aiocoap.options import Options
from aiocoap import error
from aiocoap.numbers.codes import Code
from aiocoap.numbers.optionnumbers import OptionNumber
for i in range(256): Code(i)
N = int(sys.argv[1])
for i in range(0, N): OptionNumber(i)

def mk(L):
    def opt_total(data: bytes) -> None:
        assert len(data) == L
        ok = True
        try:
            Options().decode(data)
        except error.UnparsableMessage:
            pass
        except Exception as e:
            ok = False
        assert ok
    return opt_total

for L in range(1, 4):
    print(L, run(mk(L), 300), flush=True)
