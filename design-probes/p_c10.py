import sys; sys.path.insert(0,'.')
from runch import run
import logging, socket, asyncio
logging.disable(logging.CRITICAL)
from simloop import SimLoop
import aiocoap.messagemanager as mmod, aiocoap.tokenmanager as tmod
from aiocoap.protocol import Context
from aiocoap.tokenmanager import TokenManager
from aiocoap.messagemanager import MessageManager
from aiocoap.message import Message, Direction
from aiocoap.numbers.constants import TransportTuning
from aiocoap.transports.udp6 import MessageInterfaceUDP6, UDP6EndpointAddress
from aiocoap import resource, error
from aiocoap.numbers.types import CON, ACK, RST, NON, Type
from aiocoap.numbers.codes import Code, GET, PUT, EMPTY, CONTENT
for i in range(256): Code(i)
TransportTuning.ACK_TIMEOUT=2000; TransportTuning.ACK_RANDOM_FACTOR=1; TransportTuning.MAX_LATENCY=100000; TransportTuning.EMPTY_ACK_DELAY=100; TransportTuning.MAX_RETRANSMIT=1
class StubRandom:
    def randint(self,a,b): return 7
    def uniform(self,a,b): return a
mmod.random=StubRandom(); tmod.random=StubRandom()
class FakeSock:
    def getsockname(self): return ("::", 5683, 0, 0)
class FakeTransport:
    def __init__(self, proto, loop): self.sent=[]; self.closed=False; self.proto=proto; self.loop=loop
    def sendmsg(self, data, ancdata, flags, address): self.sent.append((data, address))
    def get_extra_info(self, k): return FakeSock() if k=="socket" else None
    def close(self): self.closed=True; self.loop.call_soon(self.proto.connection_lost, None)
class Hello(resource.Resource):
    def __init__(self, loop, h): super().__init__(); self.h=h; self.calls=0
    async def render_get(self, request):
        self.calls+=1
        if self.h: await asyncio.sleep(self.h)
        return Message(payload=b"hi")
def pkt(mc):
    addr = socket.inet_pton(socket.AF_INET6, "ff02::fd" if mc else "2001:db8::2")
    return addr + (0).to_bytes(4,"little")
CODES=[0, 1, 2, 31, 32, 65, 69, 132, 160, 192, 225, 255]
def f(t: int, ci: int, mc: bool, slow: bool, nr: int) -> None:
    assert 0 <= t < 4 and 0 <= ci < len(CODES) and 0 <= nr < 4
    code=CODES[ci]
    with SimLoop() as loop:
        res=Hello(loop, 300 if slow else 0)
        site=resource.Site(); site.add_resource(["h"], res)
        ctx=Context(loop=loop, serversite=site)
        mint=MessageInterfaceUDP6(("::",5683,0,0), logging.getLogger("x"), loop)
        tr=FakeTransport(mint, loop); mint.connection_made(tr)
        tman=TokenManager(ctx); mman=MessageManager(tman); mint._ctx=mman; mman.message_interface=mint; tman.token_interface=mman
        ctx.request_interfaces.append(tman)
        m=Message(code=code, _mtype=t, _mid=77, _token=b"\x09")
        if Code(code).is_request(): m.opt.uri_path=["h"]
        NR=[None, 2, 8, 26][nr]
        if NR is not None and Code(code).is_request(): m.opt.no_response=NR
        mint.datagram_msg_received(m.encode(), [(socket.IPPROTO_IPV6, socket.IPV6_PKTINFO, pkt(mc))], 0, ("2001:db8::1", 1000, 0, 0))
        loop.run_ready(); loop.drain()
        out=[Message.decode(d) for (d,a) in tr.sent]
        c=Code(code)
        # RFC 7252 table oracle
        if code==0:
            if t==0: assert [(o.mtype,o.mid,int(o.code)) for o in out]==[(RST,77,0)]
            else: assert out==[]
        elif c.is_request() and t in (0,1):
            suppressed = (NR is not None and NR & 2)   # response is 2.05
            acks=[o for o in out if o.mtype==ACK and o.mid==77]
            if t==0: assert len(acks)==1
            else: assert acks==[]
            finals=[o for o in out if int(o.code)!=0]
            if code==1:
                if suppressed: assert finals==[]
                else:
                    assert len(set((o.mid) for o in finals))==1 and finals[0].token==b"\x09" and finals[0].payload==b"hi"
                    if t==1: assert finals[0].mtype==NON
                assert res.calls==1
        elif c.is_response() and t in (0,1,2):
            # unknown token: RST for unicast CON only
            if t==0 and not mc: assert [(o.mtype,o.mid) for o in out]==[(RST,77)]
            else: assert out==[]
        else:
            assert out==[]
        assert loop.exceptions==[]
print(run(f, 900))
