import sys; sys.path.insert(0,'.')
from runch import run
import chpatch, logging
logging.disable(logging.CRITICAL)
from simloop import SimLoop
from aiocoap.message import Message, Direction
from aiocoap.pipe import Pipe, error_to_message, run_driving_pipe
from aiocoap import resource
from aiocoap.numbers.codes import Code, GET, NOT_FOUND, CONTENT
for i in range(256): Code(i)
class Remote:
    is_multicast=False; is_multicast_locally=False
    maximum_block_size_exp=6; maximum_payload_size=1124
    scheme="coap"; hostinfo="h"; hostinfo_local="srv"
    def as_response_address(self): return self
    blockwise_key=("R",0)
class Leaf(resource.Resource):
    def __init__(self, name): super().__init__(); self.name=name
    async def render_get(self, request):
        return Message(payload=("%s|%s|%s" % (self.name, "/".join(request.opt.uri_path), request.get_request_uri())).encode())
PATHS=[(), ("a",), ("b",), ("a","b"), ("a",""), ("a","a"), ("a","b","a"), ("",)]
def call(loop, site, path):
    m=Message(code=GET); m.opt.uri_path=path; m.remote=Remote(); m.direction=Direction.INCOMING
    log=logging.getLogger("x"); pipe=Pipe(m, log); out=[]
    pipe.on_event(lambda ev: (out.append(ev), True)[1])
    run_driving_pipe(error_to_message(pipe, log), site.render_to_pipe(pipe)); loop.run_ready()
    assert len(out)==1 and out[0].message is not None
    return out[0].message
def f(r1: int, r2: int, s1: int, sub: int, rm: int, q: int) -> None:
    assert 0<=r1<len(PATHS) and 0<=r2<len(PATHS) and 1<=s1<4 and 0<=sub<len(PATHS) and 0<=rm<3 and 0<=q<len(PATHS)
    if PATHS[s1] in (PATHS[r1], PATHS[r2]): return   # resource+site at one path: documented as unsupported for removal
    with SimLoop() as loop:
        site=resource.Site(); nested=resource.Site()
        regs={}     # reference: path -> name
        site.add_resource(PATHS[r1], Leaf("R1")); regs[PATHS[r1]]="R1"
        site.add_resource(PATHS[r2], Leaf("R2")); regs[PATHS[r2]]="R2"
        nested.add_resource(PATHS[sub], Leaf("N")); site.add_resource(PATHS[s1], nested)
        if rm==1 and PATHS[r1] in site._resources:
            site.remove_resource(PATHS[r1]); regs.pop(PATHS[r1], None)
        path=PATHS[q]
        resp=call(loop, site, path)
        # reference routing
        if path in regs: exp=(regs[path], "")
        else:
            exp=None
            pre=path[:-1]
            while pre:
                if pre==PATHS[s1]:
                    rem=path[len(pre):]
                    if rem==("",): rem=()
                    exp=("N", "/".join(rem)) if rem==PATHS[sub] else "404"
                    break
                pre=pre[:-1]
        if exp is None or exp=="404":
            assert resp.code==NOT_FOUND
        else:
            assert resp.code==CONTENT
            name, rest, uri = resp.payload.decode().split("|")
            assert name==exp[0] and rest==("" if name!="N" else "")
            assert uri=="coap://srv" + ("".join("/"+p for p in path) or "/")
print(run(f, 900))
