import sys; sys.path.insert(0,'.')
from runch import run
import logging
from pathlib import Path, PurePosixPath
from aiocoap.cli.fileserver import FileServer, InvalidPathError
from aiocoap.message import Message
from aiocoap.numbers.codes import GET

ROOT = Path("/srv/root")
fs = FileServer(ROOT, logging.getLogger("x"))

def inside(p):
    # lexical containment after pathlib normalisation, rejecting ..
    parts = p.parts
    return parts[:len(ROOT.parts)] == ROOT.parts and ".." not in parts

def mk(n):
  if n == 1:
    def f(a: str) -> None:
        assert len(a) <= 2
        m = Message(code=GET); m.opt.uri_path = (a,)
        try: p = fs.request_to_localpath(m)
        except InvalidPathError: return
        assert inside(p)
  else:
    def f(a: str, b: str) -> None:
        assert len(a) <= 2 and len(b) <= 2
        m = Message(code=GET); m.opt.uri_path = (a, b)
        try: p = fs.request_to_localpath(m)
        except InvalidPathError: return
        assert inside(p)
  return f
for n in [1,2]:
    print(n, run(mk(n), 120), flush=True)
