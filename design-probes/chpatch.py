"""formatting stubs for crosshair proxies (documented environment stubs)"""
import crosshair.core_and_libs   # make sure registrations exist
from crosshair import core
from crosshair.core import deep_realize, CrossHairValue
from crosshair.libimpl import builtinslib as bl
def _hex(self, *a, **k): return "<hex-of-symbolic-bytes>"
bl.BytesLike.hex = _hex
def _lazy_percent(self, other):
    # like crosshair's _str_percent_format, but only symbolic *scalars* are realised;
    # plain objects are formatted through their own __repr__/__str__ (traced), so a
    # "%r" of a big object graph does not realise every symbolic value reachable from it
    if not isinstance(self, str):
        raise TypeError
    items = other if isinstance(other, tuple) else (other,)
    if any(isinstance(x, CrossHairValue) for x in items):
        return self.__mod__(deep_realize(other))
    return self.__mod__(other)
core._PATCH_REGISTRATIONS[str.__mod__] = _lazy_percent
