"""formatting stubs for crosshair proxies (documented environment stubs)"""
from crosshair.libimpl import builtinslib as bl
def _hex(self, *a, **k): return "<hex-of-symbolic-bytes>"
bl.BytesLike.hex = _hex
