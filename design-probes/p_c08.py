import sys; sys.path.insert(0,'.')
from runch import run
import logging, socket, asyncio
logging.disable(logging.CRITICAL)
from simloop import SimLoop
exec(open('p_c10.py').read().split("class Hello")[0].split("from simloop import SimLoop")[1])
class Obs(resource.ObservableResource):
    def __init__(self): super().__init__(); self.state=0; self.counts=[]; self.renders=[]
    def update_observation_count(self, n): self.counts.append(n)
    async def render_get(self, request):
        self.renders.append(self.state)
        return Message(payload=b"%d" % self.state)
def pkt():
    return socket.inet_pton(socket.AF_INET6, "2001:db8::2") + (0).to_bytes(4,"little")
EV=["change","ack","rst","timer","rereg","plainget","error"]
def f(e0: int, e1: int, e2: int) -> None:
    assert 0 <= e0 < 7 and 0 <= e1 < 7 and 0 <= e2 < 7
    with SimLoop() as loop:
        res=Obs(); site=resource.Site(); site.add_resource(["o"], res)
        ctx=Context(loop=loop, serversite=site)
        mint=MessageInterfaceUDP6(("::",5683,0,0), logging.getLogger("x"), loop)
        tr=FakeTransport(mint, loop); mint.connection_made(tr)
        tman=TokenManager(ctx); mman=MessageManager(tman); mint._ctx=mman; mman.message_interface=mint; tman.token_interface=mman
        ctx.request_interfaces.append(tman)
        src=("2001:db8::1", 1000, 0, 0)
        mids=[500]
        def inject(m):
            mint.datagram_msg_received(m.encode(), [(socket.IPPROTO_IPV6, socket.IPV6_PKTINFO, pkt())], 0, src); loop.run_ready()
        def get(observe):
            mids[0]+=1
            m=Message(code=GET, _mtype=CON, _mid=mids[0], _token=b"\x09", uri_path=["o"])
            if observe is not None: m.opt.observe=observe
            inject(m)
        get(0)
        ended=False
        for e in (e0,e1,e2):
            ev=EV[e]
            out=[Message.decode(d) for (d,a) in tr.sent]
            pending=[o for o in out if o.mtype==CON and int(o.code)!=0]
            lastcon=pending[-1] if pending else None
            active=[k for k in mman._active_exchanges]
            if ev=="change":
                res.state+=1; res.updated_state(); loop.run_ready()
            elif ev in ("ack","rst"):
                if not active: continue
                a=Message(code=EMPTY, _mtype=ACK if ev=="ack" else RST, _mid=active[0][1]); inject(a)
                if ev=="rst": ended=True
            elif ev=="timer":
                ts=[h for h in loop.pending_timers() if getattr(h._callback,"__name__","")=="retr"]
                if not ts: continue
                loop.fire(ts[0])
                if not mman._active_exchanges and active: ended=True   # gave up
            elif ev=="rereg": get(0); 
            elif ev=="plainget": get(None); ended=True
            elif ev=="error":
                mman.dispatch_error(OSError(113,"unreach"), UDP6EndpointAddress(src, mint)); loop.run_ready(); ended=True
        loop.run_ready()
        out=[Message.decode(d) for (d,a) in tr.sent]
        notifs=[o for o in out if o.opt.observe is not None]
        # per registration strictly increasing: (rereg restarts numbering) -> check non-decreasing runs
        assert all(o.token==b"\x09" for o in notifs)
        assert loop.exceptions==[]
        if ended and "rereg" not in [EV[e] for e in (e0,e1,e2)]:
            assert res.counts[-1]==0
print(run(f, 900))
