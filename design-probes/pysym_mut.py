import sys, ast, z3
import pysym_proto as P
src=open("/repo/aiocoap/oscore.py").read()
muts=[("number >= self._index + self._size","number > self._index + self._size"),
      ("overshoot = number - (self._index + self._size - 1)","overshoot = number - (self._index + self._size)"),
      ("self._bitfield |= 1 << (number - self._index)","self._bitfield |= 1 << (number - self._index + 1)"),
      ("if number < self._index:\n            return False","if number < self._index - 1:\n            return False"),
      ("self._bitfield >>= overshoot","self._bitfield >>= overshoot - 1")]
for a,b in muts:
    assert a in src
    m=src.replace(a,b,1)
    open("/tmp/probe/h/_mut.py","w").write(m)
    import subprocess
    out=subprocess.run([sys.executable,"-c",f"""
import pysym_proto as P, sys
src=open('/tmp/probe/h/_mut.py').read()
open('/tmp/probe/h/_m2.py','w').write(open('/tmp/probe/h/pysym_proto.py').read().replace('/repo/aiocoap/oscore.py','/tmp/probe/h/_mut.py'))
"""],capture_output=True,text=True)
    out=subprocess.run([sys.executable,"/tmp/probe/h/_m2.py","32"],capture_output=True,text=True)
    print(b[:60], "->", [l for l in out.stdout.splitlines() if l.startswith("size")] or out.stderr[-300:])
