"""Ideal-primitive stand-ins for cryptography / cbor2 / filelock (DESIGN 3.5) so that aiocoap.oscore can be
imported and its own code (option compression, AAD construction, nonce construction, replay window, sequence
number persistence) executed.  install() must run before `import aiocoap.oscore`.

AEAD = ideal functionality: encrypt records (key, nonce, aad, ciphertext, plaintext) in a table and returns an
opaque ciphertext of the right length; decrypt succeeds iff exactly that (key, nonce, aad, ciphertext) is in the
table.  HKDF = random oracle table.  cbor2.dumps = small deterministic injective RFC 8949 encoder.
"""
import sys
import types


class _Any:
    def __init__(self, *a, **k):
        pass

    def __getattr__(self, n):
        return _Any()

    def __call__(self, *a, **k):
        return _Any()


class InvalidTag(Exception):
    pass


class Oracle:
    def __init__(self):
        self.table = []
        self.kdf = []
        self.decrypt_calls = 0

    def reset(self):
        self.table.clear()
        self.kdf.clear()
        self.decrypt_calls = 0


ORACLE = Oracle()


class IdealAEAD:
    def __init__(self, key, tag_length=16):
        self.key = key
        self.taglen = tag_length

    def encrypt(self, nonce, data, aad):
        n = len(ORACLE.table)
        ct = bytes([0xC0 + (n & 0x1F)]) * len(data) + n.to_bytes(self.taglen, "big")
        ORACLE.table.append((self.key, nonce, aad, ct, data))
        return ct

    def decrypt(self, nonce, data, aad):
        ORACLE.decrypt_calls += 1
        for (k, n, a, ct, pt) in ORACLE.table:
            if k == self.key and n == nonce and a == aad and ct == data:
                return pt
        raise InvalidTag()


class HKDF:
    def __init__(self, algorithm, length, salt, info, backend=None):
        self.args = (length, salt, info)

    def derive(self, ikm):
        key = (self.args, ikm)
        for (k, v) in ORACLE.kdf:
            if k == key:
                return v
        n = len(ORACLE.kdf) + 1
        v = bytes([n]) * self.args[0]
        ORACLE.kdf.append((key, v))
        return v


def _head(major, n):
    if n < 24:
        return bytes([(major << 5) | n])
    if n < 256:
        return bytes([(major << 5) | 24, n])
    if n < 65536:
        return bytes([(major << 5) | 25]) + n.to_bytes(2, "big")
    if n < 2 ** 32:
        return bytes([(major << 5) | 26]) + n.to_bytes(4, "big")
    return bytes([(major << 5) | 27]) + n.to_bytes(8, "big")


def cbor_dumps(o):
    if o is None:
        return b"\xf6"
    if o is True:
        return b"\xf5"
    if o is False:
        return b"\xf4"
    if isinstance(o, int):
        return _head(0, o) if o >= 0 else _head(1, -1 - o)
    if isinstance(o, bytes):
        return _head(2, len(o)) + o
    if isinstance(o, str):
        e = o.encode("utf8")
        return _head(3, len(e)) + e
    if isinstance(o, (list, tuple)):
        return _head(4, len(o)) + b"".join(cbor_dumps(x) for x in o)
    raise TypeError(type(o))


class FileLock:
    log = []

    def __init__(self, p):
        self.lock_file = p

    def acquire(self, timeout=None):
        FileLock.log.append(("acquire", self.lock_file))

    def release(self):
        FileLock.log.append(("release", self.lock_file))


NAMES = ["cryptography", "cryptography.hazmat", "cryptography.hazmat.primitives", "cryptography.hazmat.primitives.ciphers",
         "cryptography.hazmat.primitives.ciphers.aead", "cryptography.hazmat.primitives.kdf",
         "cryptography.hazmat.primitives.kdf.hkdf", "cryptography.hazmat.primitives.hashes", "cryptography.hazmat.backends",
         "cryptography.exceptions", "cryptography.hazmat.primitives.asymmetric",
         "cryptography.hazmat.primitives.asymmetric.utils", "cryptography.hazmat.primitives.serialization",
         "cryptography.hazmat.primitives.asymmetric.ed25519", "cryptography.hazmat.primitives.asymmetric.x25519",
         "cryptography.hazmat.primitives.asymmetric.ec", "cryptography.hazmat.primitives.asymmetric.types",
         "cryptography.hazmat.primitives.padding", "cryptography.hazmat.primitives.ciphers.algorithms",
         "cryptography.hazmat.primitives.ciphers.modes",
         "cbor2", "filelock"]


def install():
    if "cryptography" in sys.modules and getattr(sys.modules["cryptography"], "_vf_stub", False):
        return
    for n in NAMES:
        m = types.ModuleType(n)
        m.__getattr__ = lambda name: _Any()
        sys.modules[n] = m
    for n in NAMES:
        if "." in n:
            p, c = n.rsplit(".", 1)
            setattr(sys.modules[p], c, sys.modules[n])
    sys.modules["cryptography"]._vf_stub = True
    sys.modules["cryptography.exceptions"].InvalidTag = InvalidTag
    aead = sys.modules["cryptography.hazmat.primitives.ciphers.aead"]
    aead.AESCCM = IdealAEAD
    aead.AESGCM = lambda key: IdealAEAD(key, 16)
    aead.ChaCha20Poly1305 = lambda key: IdealAEAD(key, 16)
    sys.modules["cryptography.hazmat.primitives.kdf.hkdf"].HKDF = HKDF
    sys.modules["cbor2"].dumps = cbor_dumps
    sys.modules["filelock"].FileLock = FileLock
