"""FakeFS (DESIGN 3.5): the file system beneath oscore.FilesystemSecurityContext with an effect counter that raises
Crash (BaseException) at a chosen position.  Model: process crash -- every *completed* effect is visible afterwards;
data written to a temp file becomes the file's content at fsync (a crash between write and fsync leaves the temp file
empty, which is harmless because the rename has not happened); os.replace is atomic."""
import os as _os


class Crash(BaseException):
    pass


class Doc:
    """identity JSON codec: dumps(x).encode() -> Doc(x); load(file) -> x  (contract load(dump(x)) == x)"""

    def __init__(self, d):
        self.d = d

    def encode(self, enc):
        return self


class FakeFS:
    def __init__(self, files, crash_at=None):
        self.files = dict(files)
        self.n = 0
        self.crash_at = crash_at
        self.tmpcount = 0
        self.log = []

    def effect(self, what):
        if self.crash_at is not None and self.n == self.crash_at:
            raise Crash()
        self.n += 1
        self.log.append(what)

    def survivors(self):
        return {k: v for k, v in self.files.items()}


class FakeFile:
    def __init__(self, fs, name):
        self.fs = fs
        self.name = name
        self.buf = None

    def __enter__(self):
        return self

    def __exit__(self, *a):
        return False

    def write(self, data):
        self.fs.effect("write")
        self.buf = data

    def flush(self):
        pass

    def fileno(self):
        return self

    def read(self):
        return self.fs.files[self.name]


def install(o, fs, token_counter):
    """injects the fakes as module globals of aiocoap.oscore (o)"""
    class OS:
        path = _os.path

        @staticmethod
        def fsync(f):
            fs.effect("fsync")
            fs.files[f.name] = f.buf

        @staticmethod
        def replace(a, b):
            fs.effect("replace")
            fs.files[b] = fs.files.pop(a)

        @staticmethod
        def unlink(p):
            fs.effect("unlink")
            fs.files.pop(p, None)

    class TMP:
        @staticmethod
        def mkstemp(dir, prefix, suffix, text):
            fs.effect("mkstemp")
            fs.tmpcount += 1
            n = "%s/%stmp%d%s" % (dir, prefix, fs.tmpcount, suffix)
            fs.files[n] = None
            return (n, n)

    class IO:
        @staticmethod
        def open(hand, mode):
            return FakeFile(fs, hand)

    def _open(p, *a):
        if p not in fs.files or fs.files[p] is None:
            raise FileNotFoundError(p)
        return FakeFile(fs, p)

    class JSON:
        @staticmethod
        def dumps(d):
            return Doc(d)

        @staticmethod
        def load(f):
            v = f.read()
            return v.d if isinstance(v, Doc) else v

    class SECRETS:
        @staticmethod
        def token_bytes(n):
            token_counter[0] += 1
            return bytes([token_counter[0]]) * n

    o.os = OS
    o.tempfile = TMP
    o.io = IO
    o.open = _open
    o.json = JSON
    o.secrets = SECRETS
