"""C07 -- observe client: notifications in freshness order, termination signalled once."""
from vf.api import Obligation, pick

META = {
    "explanation": "The real Request/ClientObservation state machine is fed notification sequences whose Observe values (full "
    "24-bit range), arrival instants (stubbed protocol.time, integers) and terminating event (kind and position) are solver "
    "variables; the set and order of deliveries is compared with the RFC 7641 section 3.4 freshness formula applied to the last "
    "delivered (V, T). Stack obligations run the same through the real TokenManager/MessageManager/MessageInterfaceUDP6 with "
    "notifications as datagrams (3-byte Observe option with symbolic bytes), checking ACK/RST reactions after the end.",
    "trusted_base": ["vf.simloop.SimLoop", "clock stub for aiocoap.protocol.time", "vf.stack fake datagram transport",
                     "RFC 7641 3.4 formula in the harness"],
    "assumptions": [
        "at most 3 (quick) / 4 (thorough) notifications after the first response per run; each step starts from an arbitrary "
        "(V1,T1) because the first response's value and time are symbolic too",
        "arrival instants are integers (seconds) in [0, 1e6], non-decreasing",
        "pipe-level obligations emulate TokenManager's is_last rule (is_last iff the response has no Observe option); the "
        "stack-level obligations use the real TokenManager",
    ],
}

FUNCS = ["protocol.Request.__init__/_run", "protocol.ClientObservation.callback/error/cancel", "pipe.Pipe._add_event"]


def rfc7641_fresher(v1, t1, v2, t2):
    return (v1 < v2 and v2 - v1 < 2 ** 23) or (v1 > v2 and v1 - v2 > 2 ** 23) or (t2 > t1 + 128)


class Clock:
    def __init__(self):
        self.now = 0

    def time(self):
        return self.now


def mk_pipe(n):
    def make(reach):
        import logging
        from vf.simloop import SimLoop
        import aiocoap.protocol as proto
        from aiocoap.protocol import Request
        from aiocoap.pipe import Pipe
        from aiocoap.message import Message, Direction
        from aiocoap import error
        from aiocoap.numbers.codes import Code, GET, CONTENT, NOT_FOUND
        for i in range(256):
            Code(i)
        CLK = Clock()
        proto.time = CLK
        LOG = logging.getLogger("vf-null")

        def h(v0: int, v1: int, v2: int, v3: int, v4: int, t0: int, t1: int, t2: int, t3: int, t4: int,
              first_obs: bool, term_kind: int, term_pos: int) -> None:
            assert 0 <= v0 < 2 ** 24 and 0 <= v1 < 2 ** 24 and 0 <= v2 < 2 ** 24 and 0 <= v3 < 2 ** 24 and 0 <= v4 < 2 ** 24
            assert 0 <= t0 <= t1 <= t2 <= t3 <= t4 <= 10 ** 6
            assert 0 <= term_kind <= 3 and 0 <= term_pos <= n
            vs = [v1, v2, v3, v4][:n]
            ts = [t1, t2, t3, t4][:n]
            with SimLoop() as loop:
                req = Message(code=GET, observe=0)
                pipe = Pipe(req, LOG)
                r = Request(pipe, loop, LOG)
                got, errs = [], []
                r.observation.register_callback(got.append, _suppress_deprecation=True)
                r.observation.register_errback(errs.append, _suppress_deprecation=True)

                def resp(v, code=CONTENT):
                    m = Message(code=code, observe=v)
                    m.direction = Direction.INCOMING
                    return m

                CLK.now = t0
                if term_kind == 3 and term_pos == 0 and not first_obs:
                    # the transport fails before any response arrived: the request fails and the observation ends with the error
                    pipe.add_exception(error.NetworkError("unreachable"))
                    loop.run_ready()
                    assert r.response.done() and isinstance(r.response.exception(), error.NetworkError)
                    assert len(errs) == 1 and isinstance(errs[0], error.Error) and got == [], "observation must end (once) with the network error"
                    assert r.observation.cancelled
                    return
                first = resp(v0 if first_obs else None)
                pipe.add_response(first, is_last=not first_obs)
                loop.run_ready()
                assert r.response.done() and r.response.result() is first
                if not first_obs:
                    # not observable: signalled exactly once, nothing delivered, later events change nothing
                    assert len(errs) == 1 and isinstance(errs[0], error.NotObservable) and isinstance(errs[0], error.Error)
                    CLK.now = t1
                    pipe.add_response(resp(v1), is_last=False)
                    loop.run_ready()
                    assert got == [] and len(errs) == 1
                else:
                    exp = []
                    lv, lt = v0, t0
                    ended = False
                    exp_err = None
                    final = None
                    for i in range(n + 1):
                        if term_kind != 0 and term_pos == i and not ended:
                            CLK.now = ts[i - 1] if i else t0
                            if term_kind == 1:
                                final = resp(None)
                                pipe.add_response(final, is_last=True)
                                exp.append(final)
                                exp_err = error.ObservationCancelled
                            elif term_kind == 2:
                                final = resp(None, NOT_FOUND)
                                pipe.add_response(final, is_last=True)
                                exp.append(final)
                                exp_err = error.ObservationCancelled
                            else:
                                pipe.add_exception(error.NetworkError("unreachable"))
                                exp_err = error.NetworkError
                            ended = True
                            loop.run_ready()
                        if i == n:
                            break
                        CLK.now = ts[i]
                        m = resp(vs[i])
                        pipe.add_response(m, is_last=False)
                        loop.run_ready()
                        if not ended and rfc7641_fresher(lv, lt, vs[i], ts[i]):
                            exp.append(m)
                            lv, lt = vs[i], ts[i]
                    assert len(got) == len(exp)
                    assert all(g is e for g, e in zip(got, exp))
                    if ended:
                        assert len(errs) == 1 and isinstance(errs[0], exp_err) and isinstance(errs[0], error.Error)
                        assert r.observation.cancelled
                    else:
                        assert errs == [] and not r.observation.cancelled
                assert loop.exceptions == []
            assert not reach, "reach"
        return h
    return make


def mk_stack(con_notif, term_kind):
    """Through the real token/message managers: notifications are datagrams; after the end, late
    notifications are rejected like unknown responses (CON -> RST, NON -> silence)."""
    def make(reach):
        from vf import stack
        from vf.simloop import SimLoop
        import aiocoap.protocol as proto
        from aiocoap.message import Message
        from aiocoap import error
        from aiocoap.numbers.types import CON, NON, ACK, RST
        from aiocoap.numbers.codes import GET, CONTENT, NOT_FOUND
        stack.configure()
        CLK = Clock()
        proto.time = CLK

        def h(v0: int, b1: bytes, b2: bytes, t1: int, t2: int, term_pos: int, dup: bool) -> None:
            assert 0 <= v0 < 2 ** 24 and len(b1) == 3 and len(b2) == 3 and 0 <= t1 <= t2 <= 10 ** 6
            assert 0 <= term_pos <= 2
            v1 = int.from_bytes(b1, "big")
            v2 = int.from_bytes(b2, "big")
            with SimLoop() as loop:
                S = stack.StackS(loop)
                req = Message(code=GET, uri_path=["o"], observe=0, _mtype=CON)
                req.remote = S.remote(stack.R0)
                rq = S.ctx.request(req, handle_blockwise=False)
                got, errs = [], []
                rq.observation.register_callback(got.append, _suppress_deprecation=True)
                rq.observation.register_errback(errs.append, _suppress_deprecation=True)
                loop.run_ready()
                sent0 = S.out()
                assert len(sent0) == 1
                tok, mid = sent0[0].token, sent0[0].mid
                CLK.now = 0
                S.deliver(Message(code=CONTENT, _mtype=ACK, _mid=mid, _token=tok, observe=v0, payload=b"0").encode())
                assert rq.response.done() and rq.response.result().payload == b"0"
                # a later, unrelated request to another endpoint stays untouched by whatever happens to the observation
                other = Message(code=GET, uri_path=["z"], _mtype=NON)
                other.remote = S.remote(stack.R2)
                rq_other = S.ctx.request(other, handle_blockwise=False)
                loop.run_ready()
                S.tr.sent[:] = [x for x in S.tr.sent if x[1][0] != stack.R2[0]]
                nmid = [100]

                def notif(vbytes, payload, code=CONTENT):
                    # hand-built datagram: ver 1, type, TKL | code | MID | token | Observe (delta 6, len 3) | 0xff payload
                    t = CON if con_notif else NON
                    nmid[0] += 1
                    hdr = bytes([0x40 | (int(t) << 4) | len(tok), int(code), nmid[0] >> 8, nmid[0] & 255]) + tok
                    opt = (bytes([0x63]) + vbytes) if vbytes is not None else b""
                    S.deliver(hdr + opt + b"\xff" + payload)
                    return nmid[0]

                exp = []
                lv, lt = v0, 0
                ended = False
                exp_err = None
                acks_expected = []
                rsts_expected = []
                seq = [(b1, v1, t1, b"1"), (b2, v2, t2, b"2")]
                for i in range(3):
                    if term_kind != 0 and term_pos == i and not ended:
                        if term_kind == 3:
                            S.icmp_error(stack.R0)
                            exp_err = error.NetworkError
                        else:
                            m = notif(None, b"F", CONTENT if term_kind == 1 else NOT_FOUND)
                            exp.append(b"F")
                            exp_err = error.ObservationCancelled
                            if con_notif:
                                acks_expected.append(m)
                        ended = True
                    if i == 2:
                        break
                    vb, v, t, pl = seq[i]
                    CLK.now = t
                    m = notif(vb, pl)
                    if ended:
                        if con_notif:
                            rsts_expected.append(m)      # rejected like an unknown response
                    else:
                        if con_notif:
                            acks_expected.append(m)
                        if rfc7641_fresher(lv, lt, v, t):
                            exp.append(pl)
                            lv, lt = v, t
                    if dup and i == 0 and not ended:
                        # exact duplicate datagram of the first notification (responses are not deduplicated:
                        # it is matched, ACKed again if CON, and filtered by the freshness rule)
                        nmid[0] -= 1
                        m = notif(vb, pl)
                        if con_notif:
                            acks_expected.append(m)
                        if rfc7641_fresher(lv, lt, v, t):
                            exp.append(pl)
                assert [g.payload for g in got] == exp
                if ended:
                    assert len(errs) == 1 and isinstance(errs[0], exp_err) and isinstance(errs[0], error.Error)
                else:
                    assert errs == []
                out = S.out()[1:]
                assert [(o.mtype, o.mid) for o in out if o.mtype == ACK] == [(ACK, m) for m in acks_expected]
                assert [(o.mtype, o.mid) for o in out if o.mtype == RST] == [(RST, m) for m in rsts_expected]
                assert all(o.mtype in (ACK, RST) and int(o.code) == 0 for o in out)
                assert not rq_other.response.done(), "unrelated request to another endpoint was completed / failed"
                assert loop.exceptions == []
            assert not reach, "reach"
        return h
    return make


def mk_asynciter(handle_blockwise):
    """the `async for` consumer interface: bursts of events within one loop iteration, termination at any position"""
    def make(reach):
        import asyncio
        import logging
        from vf.simloop import SimLoop
        from vf import stack
        import aiocoap.protocol as proto
        from aiocoap.message import Message
        from aiocoap import error
        from aiocoap.numbers.types import CON, NON, ACK
        from aiocoap.numbers.codes import GET, CONTENT, NOT_FOUND
        stack.configure()
        CLK = Clock()
        proto.time = CLK

        def h(b1: int, b2: int, term: int) -> None:
            assert 1 <= b1 <= 3 and 0 <= b2 <= 2 and 0 <= term <= 2
            n1, n2 = pick([0, 1, 2, 3], b1), pick([0, 1, 2], b2)
            tk = pick([0, 1, 2], term)
            with SimLoop() as loop:
                S = stack.StackS(loop)
                req = Message(code=GET, uri_path=["o"], observe=0, _mtype=CON)
                req.remote = S.remote(stack.R0)
                rq = S.ctx.request(req, handle_blockwise=handle_blockwise)
                got, ended = [], []

                async def consume():
                    async for m in rq.observation:
                        got.append(m.payload)
                    ended.append(True)
                ct = loop.create_task(consume())
                loop.run_ready()
                first = S.out()[0]
                S.deliver(Message(code=CONTENT, _mtype=ACK, _mid=first.mid, _token=first.token, observe=10, payload=b"0").encode())
                assert rq.response.done()
                serial = [10]
                mid = [300]

                def burst(n, final=None):
                    """n notifications (and optionally a terminating response) arrive within one loop iteration"""
                    datas = []
                    for _ in range(n):
                        serial[0] += 1
                        mid[0] += 1
                        datas.append(Message(code=CONTENT, _mtype=NON, _mid=mid[0], _token=first.token, observe=serial[0], payload=b"n%d" % serial[0]).encode())
                    if final is not None:
                        mid[0] += 1
                        datas.append(Message(code=final, _mtype=NON, _mid=mid[0], _token=first.token, payload=b"final").encode())
                    import socket
                    for d in datas:
                        S.mint.datagram_msg_received(d, [(socket.IPPROTO_IPV6, socket.IPV6_PKTINFO, stack.pktinfo(False))], 0, stack.R0)
                    loop.run_ready()
                burst(n1)
                assert got and got[-1] == b"n%d" % serial[0], "the freshest notification of a burst must reach the consumer"
                burst(n2, final=(None, CONTENT, NOT_FOUND)[tk])
                if tk == 0:
                    assert not ended and not ct.done()
                    if n2:
                        assert got[-1] == b"n%d" % serial[0]
                else:
                    # the iteration ends (it must not hang).  The iterator is documented as a lossy queue: within one burst a
                    # later event may replace an earlier one, so the terminating response is required to reach the consumer only
                    # when nothing else arrived in the same burst; otherwise the last item is the final response or the freshest
                    # notification of that burst
                    assert ended == [True] and ct.done() and ct.exception() is None, "consumer hangs after the observation ended"
                    if n2 == 0:
                        assert got[-1] == b"final"
                    else:
                        assert got[-1] in (b"final", b"n%d" % serial[0], b"n%d" % (serial[0] - n2 + 1))
                assert all(g in [b"n%d" % k for k in range(11, serial[0] + 1)] + [b"final"] for g in got)
                ct.cancel()
                loop.run_ready()
                for hnd in list(loop.pending_timers()):
                    hnd.cancel()
                assert loop.exceptions == []
            assert not reach, "reach"
        return h
    return make


def obligations(tier):
    n = 3 if tier == "quick" else 4
    obs = [Obligation(
        name="pipe-notifications-n%d" % n, make=mk_pipe(n), timeout=240 if tier == "quick" else 1500, functions=FUNCS,
        symbolic={"Observe values v0..v%d" % n: "[0, 2^24)", "arrival instants t0..t%d" % n: "[0,1e6] non-decreasing",
                  "first response has Observe": "bool", "terminator kind": "none / 2.05 without Observe / 4.04 / network error",
                  "terminator position": "0..%d" % n},
        concrete={"notifications": n}, stubs=["protocol.time -> clock stub", "SimLoop"])]
    for con, tk in [(c, k) for c in (False, True) for k in range(4)]:
        obs.append(Obligation(
            name="stack-notifications-%s-term%d" % ("con" if con else "non", tk), make=mk_stack(con, tk),
            timeout=300 if tier == "quick" else 1500,
            functions=FUNCS + ["TokenManager.process_response/request/dispatch_error", "MessageManager.dispatch_message",
                               "MessageInterfaceUDP6.datagram_msg_received", "Message.decode"],
            symbolic={"v0": "[0,2^24)", "Observe option bytes of 2 notifications": "3 symbolic bytes each",
                      "t1<=t2": "[0,1e6]", "terminator position": "0..2", "duplicate datagram": "bool"},
            concrete={"notification type": "CON" if con else "NON", "notifications": 2,
                      "terminator kind": ["none", "2.05 without Observe", "4.04", "transport error"][tk]},
            stubs=["protocol.time -> clock stub", "SimLoop", "FakeDatagramTransport", "random stubs"]))
    for hb in (False, True):
        obs.append(Obligation("async-iteration-%s" % ("blockwise" if hb else "plain"), mk_asynciter(hb), 250 if tier == "quick" else 900,
                              functions=FUNCS + ["protocol.ClientObservation.__aiter__/_Iterator", "protocol.BlockwiseRequest._run_observation"],
                              symbolic={"size of first burst": "1..3", "size of second burst": "0..2", "terminator in second burst": "none / 2.05 without Observe / 4.04"},
                              concrete={"through BlockwiseRequest": hb}, stubs=["SimLoop", "FakeDatagramTransport", "clock stub"]))
    return obs
