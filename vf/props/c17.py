"""C17 -- site routing: exact match, longest prefix for nested sites, matching discovery."""
from vf.api import Obligation, pick

META = {
    "explanation": "Sites are built from registrations chosen by symbolic index (resources and two kinds of nested sites at paths "
    "sharing prefixes, with empty components and a root resource), optionally followed by a removal or a replacement, and "
    "requests for paths chosen by symbolic index are rendered through the real Site.render_to_pipe; a reference router written "
    "from the statement (exact match, else longest proper non-empty prefix with a nested site, recursively, else 4.04) predicts "
    "the handling resource, the remaining path it sees and the original request URI it can reconstruct. The /.well-known/core "
    "listing and RFC 6690 filter queries (exact and prefix patterns on rt, if, ct, href; one parameter, and two parameters that both "
    "have to match) are compared with a reference computed from the registration list.",
    "trusted_base": ["reference router / reference link filter in the harness", "vf.simloop.SimLoop", "pipe-level driver"],
    "assumptions": [
        "a plain resource and a nested site may share a path (documented); removing one of such a pair is documented as unsupported and excluded",
        "nested sites at non-empty paths (a site registered at the root of another site is not a supported layout)",
        "filter queries with one parameter (RFC 6690 4.1) over the full catalogue; with two parameters (conjunction) over 11 x 11 pairs",
    ],
}

FUNCS = ["resource.Site._find_child_and_pathstripped_message/add_resource/remove_resource/get_resources_as_linkheader/render_to_pipe",
         "resource.WKCResource.render_get", "message.Message.get_request_uri (_original_request_path)"]

PATHS = [(), ("a",), ("b",), ("a", "b"), ("a", ""), ("",), ("a", "b", "c"), ("b", "a")]
REQPATHS = [(), ("a",), ("b",), ("a", "b"), ("a", ""), ("",), ("a", "b", "c"), ("a", "x"), ("a", "b", "x"), ("a", "n", "l"), ("a", "b", "n", "l"),
            ("a", "b", ""), ("c",), ("b", "a"), ("b", "a", "x"), ("a", "a")]


class FakeRemote:
    scheme = "coap"
    hostinfo = "client.example"
    hostinfo_local = "srv.example"
    is_multicast = False
    is_multicast_locally = False
    maximum_block_size_exp = 6
    maximum_payload_size = 1124
    blockwise_key = ("R",)

    def as_response_address(self):
        return self


def _kit():
    import logging
    from vf.simloop import SimLoop
    from aiocoap.message import Message, Direction
    from aiocoap.pipe import Pipe, run_driving_pipe, error_to_message
    from aiocoap import resource
    from aiocoap.numbers.codes import Code
    from aiocoap.numbers.optionnumbers import OptionNumber
    for i in range(256):
        Code(i)
    for i in range(64):
        OptionNumber(i)
    LOG = logging.getLogger("vf-null")

    def serve(loop, site, req):
        req.direction = Direction.INCOMING
        req.remote = FakeRemote()
        pipe = Pipe(req, LOG)
        out = []
        pipe.on_event(lambda ev: (out.append(ev), True)[1])
        run_driving_pipe(error_to_message(pipe, LOG), site.render_to_pipe(pipe))
        loop.run_ready()
        assert len(out) == 1 and out[0].message is not None
        return out[0].message
    return SimLoop, Message, resource, serve


def mk_routing(first_path, first_kind):
    def make(reach):
        SimLoop, Message, resource, serve = _kit()
        from aiocoap.numbers.codes import GET, CONTENT, NOT_FOUND
        from aiocoap.message import _quote_for_path

        class Leaf(resource.Resource):
            def __init__(self, name):
                super().__init__()
                self.name = name

            async def render_get(self, request):
                return Message(payload=("%s|%s|%s" % (self.name, "/".join(request.opt.uri_path) + ("#%d" % len(request.opt.uri_path)), request.get_request_uri())).encode("utf8"))

        def build(kind, tag):
            """kind 0: plain resource; 1: nested site with leaves at (), ('x',), ('a',); 2: nested site containing a nested site at ('n',)"""
            if kind == 0:
                return Leaf(tag), ("leaf", tag)
            if kind == 1:
                s = resource.Site()
                model = {"res": {}, "sub": {}}
                for p in ((), ("x",), ("a",)):
                    nm = "%s.%s" % (tag, "_".join(p) or "root")
                    s.add_resource(p, Leaf(nm))
                    model["res"][p] = nm
                return s, ("site", model)
            s = resource.Site()
            inner = resource.Site()
            inner.add_resource(("l",), Leaf(tag + ".n.l"))
            inner.add_resource((), Leaf(tag + ".n.root"))
            s.add_resource(("n",), inner)
            s.add_resource(("b",), Leaf(tag + ".b"))
            return s, ("site", {"res": {("b",): tag + ".b"}, "sub": {("n",): {"res": {("l",): tag + ".n.l", (): tag + ".n.root"}, "sub": {}}}})

        def ref_route(model, path):
            """-> (leaf name, remaining path) or None"""
            if path in model["res"]:
                return model["res"][path], ()
            if not path:
                return None
            for k in range(len(path) - 1, 0, -1):
                pre = path[:k]
                if pre in model["sub"]:
                    rem = path[k:]
                    if rem == ("",):
                        rem = ()
                    return ref_route(model["sub"][pre], rem)
            return None

        def h(p2: int, k2: int, op: int, opi: int, rp: int) -> None:
            assert 0 <= p2 < len(PATHS) and 0 <= k2 <= 2 and 0 <= op <= 2 and 0 <= opi <= 1
            assert 0 <= rp < len(REQPATHS)
            regs = [(first_path, first_kind), (pick(PATHS, p2), pick([0, 1, 2], k2))]
            with SimLoop() as loop:
                site = resource.Site()
                model = {"res": {}, "sub": {}}
                for i, (p, kind) in enumerate(regs):
                    if kind != 0 and p == ():
                        return                  # nested site at the root of a site: not a supported layout
                    # a plain resource and a nested site at the same path: documented ("odd design") -- requests for exactly that
                    # path go to the resource, longer ones to the site; only removal is documented as unsupported (below)
                    obj, m = build(kind, "r%d" % i)
                    site.add_resource(list(p), obj)
                    if kind == 0:
                        model["res"][p] = m[1]
                    else:
                        model["sub"][p] = m[1]
                # one further operation: 1 = remove registration opi, 2 = replace registration opi by a fresh plain resource / site
                o = pick([0, 1, 2], op)
                if o and regs[0][0] == regs[1][0] and (regs[0][1] == 0) != (regs[1][1] == 0):
                    return                      # removing / replacing one of a resource and a nested site sharing a path: unsupported
                if o:
                    p, kind = regs[pick([0, 1], opi)]
                    present = p in (model["res"] if kind == 0 else model["sub"])
                    if o == 1:
                        if not present:
                            return
                        site.remove_resource(list(p))
                        (model["res"] if kind == 0 else model["sub"]).pop(p)
                    else:
                        obj, m = build(kind, "new")
                        site.add_resource(list(p), obj)
                        (model["res"] if kind == 0 else model["sub"])[p] = m[1]
                path = pick(REQPATHS, rp)
                resp = serve(loop, site, Message(code=GET, uri_path=list(path)))
                exp = ref_route(model, path)
                if exp is None:
                    assert resp.code == NOT_FOUND, "no exact match and no nested site on a proper prefix -> 4.04"
                else:
                    assert resp.code == CONTENT
                    name, rem = exp
                    got = resp.payload.decode("utf8").split("|")
                    assert got[0] == name, "request rendered by the wrong resource"
                    assert got[1] == "/".join(rem) + ("#%d" % len(rem)), "handler must see the path with the matched part removed"
                    assert got[2] == "coap://srv.example" + ("".join("/" + _quote_for_path(c) for c in path) or "/"), "original request URI not reconstructible"
                assert loop.exceptions == []
            assert not reach, "reach"
        return h
    return make


# (path, kind, attributes): kind 'leaf' plain, 'hidden', 'site'
LISTING = [
    (("a",), "leaf", {"rt": "temperature-c humidity", "ct": "0"}),
    (("a", "b"), "leaf", {"rt": "humidity", "if_": "sensor"}),
    (("b",), "leaf", {"if_": "core.ll core.b", "ct": "40 0"}),
    (("h",), "hidden", {}),
    (("s",), "site", {}),
    ((), "leaf", {"rt": "root"}),
    (("a", ""), "leaf", {"rt": "temp"}),
    (("t", ""), "site", {}),
    (("r",), "bare", {}),
]
FILTERS = [None, "rt=humidity", "rt=temperature-c", "rt=temp*", "rt=temperature-c humidity", "rt=hum", "if=sensor", "if=core.b", "if=core*", "ct=0", "ct=40",
           "ct=4*", "href=/a", "href=/a*", "href=/s/*", "href=/", "rt=*", "rt=nothing", "noequals", "foo=bar", "rt=root", "href=/s/x", "href=/t//x", "href=/t/*", "rt=", "href=", "ct="]


FILTERS2 = ["if=", "rt=humidity", "rt=temp*", "if=sensor", "if=core*", "ct=0", "href=/a*", "href=/s/*", "rt=nested", "foo=bar", "noequals", "rt=*"]


def mk_listing(reach, two=False):
    SimLoop, Message, resource, serve = _kit()
    from aiocoap.numbers.codes import GET, CONTENT

    class Leaf(resource.Resource):
        async def render_get(self, request):
            return Message(payload=b"x")

    class Hidden(resource.Resource):
        def get_link_description(self):
            return None

    from aiocoap import interfaces

    class Bare(interfaces.Resource):
        """implements the resource interface directly: no get_link_description -- listed without attributes"""

        async def render(self, request):
            return Message(payload=b"bare")

        async def needs_blockwise_assembly(self, request):
            return True

        async def render_to_pipe(self, pipe):
            await self._render_to_pipe(pipe)

    MASKS = [0b111111111, 0b000000000, 0b100010011, 0b011101100, 0b110010000, 0b010101011]
    REMOVED = [-1, 4, 0, 3, 7]

    if two:
        MASKS = [0b111111111, 0b100010011, 0b011101100]

    def h(mi: int, fi: int, ri: int) -> None:
        assert 0 <= mi < len(MASKS) and 0 <= fi < (len(FILTERS2) if two else len(FILTERS)) and 0 <= ri < (len(FILTERS2) if two else len(REMOVED))
        mask = pick(MASKS, mi)
        removed = -1 if two else pick(REMOVED, ri)
        with SimLoop() as loop:
            site = resource.Site()
            site.add_resource([".well-known", "core"], resource.WKCResource(site.get_resources_as_linkheader))
            expected = {"/.well-known/core": {"ct": "40"}}
            for i, (p, kind, attrs) in enumerate(LISTING):
                if not (mask >> i) & 1:
                    continue
                if kind == "site":
                    pre = "/" + "/".join(p)
                    s = resource.Site()
                    x = Leaf()
                    x.rt = "nested"
                    s.add_resource(["x"], x)
                    s.add_resource([], Leaf())
                    deep = resource.Site()
                    deep.add_resource(["z"], Leaf())
                    s.add_resource(["d"], deep)
                    site.add_resource(list(p), s)
                    if removed != i:
                        expected[pre + "/x"] = {"rt": "nested"}
                        expected[pre + "/"] = {}
                        expected[pre + "/d/z"] = {}
                else:
                    r = Hidden() if kind == "hidden" else (Bare() if kind == "bare" else Leaf())
                    for k, v in attrs.items():
                        setattr(r, k, v)
                    site.add_resource(list(p), r)
                    if kind != "hidden" and removed != i:
                        expected["/" + "/".join(p)] = {k.rstrip("_"): v for k, v in attrs.items()}
                if removed == i:
                    site.remove_resource(list(p))
            flts = [pick(FILTERS2, fi), pick(FILTERS2, ri)] if two else [pick(FILTERS, fi)]
            req = Message(code=GET, uri_path=[".well-known", "core"])
            if flts != [None]:
                req.opt.uri_query = flts
            resp = serve(loop, site, req)
            assert resp.code == CONTENT and int(resp.opt.content_format) == 40
            text = resp.payload.decode("utf8")
            hrefs = []
            for part in text.split(",") if text else []:
                href = part.split(">")[0].lstrip("<")
                if 'rel="impl-info"' in part:
                    continue
                hrefs.append(href)
            # reference: RFC 6690 4.1 filter on the registration list
            def matches(href, attrs):
                return all(matches1(href, attrs, flt) for flt in flts)

            def matches1(href, attrs, flt):
                if flt is None or "=" not in flt:
                    return True
                k, v = flt.split("=", 1)
                if k == "href":
                    vals = [href]
                elif k in attrs:
                    vals = attrs[k].split(" ")
                else:
                    return False
                if v.endswith("*"):
                    return any(x.startswith(v[:-1]) for x in vals)
                return any(x == v for x in vals)
            want = sorted(hh for hh, at in expected.items() if matches(hh, at))
            assert sorted(hrefs) == want, "listing / filter result differs from the registered, non-hidden resources that match"
            assert loop.exceptions == []
        assert not reach, "reach"
    return h


def obligations(tier):
    q = tier == "quick"
    obs = []
    firsts = [(("a",), 0), (("a",), 1), (("a",), 2), (("a", "b"), 1), ((), 0), (("",), 0)] if q else [(p, k) for p in PATHS for k in (0, 1, 2) if not (k and p == ())]
    for (p, k) in firsts:
        obs.append(Obligation("routing-first-%s-kind%d" % ("_".join(x or "E" for x in p) or "root", k), mk_routing(p, k), 280 if q else 1500, functions=FUNCS,
                              symbolic={"second registration": "path index/%d x kind (resource, site, site with inner site)" % len(PATHS),
                                        "operation": "none / remove / replace one registration", "request path": "index over %d paths" % len(REQPATHS)},
                              concrete={"first registration": [list(p), k]}, stubs=["SimLoop", "pipe-level driver"]))
    obs.append(Obligation("wkc-listing-and-filters", mk_listing, 280 if q else 1500, functions=FUNCS,
                          symbolic={"registered subset": "index over 6 subsets of %d registrations (plain, hidden, nested site, root, empty component, interface-only resource)" % len(LISTING),
                                    "filter": "index over %d queries" % len(FILTERS), "removed registration": "none / site / plain / hidden"}))
    obs.append(Obligation("wkc-two-filters", lambda reach: mk_listing(reach, two=True), 280 if q else 1500, functions=FUNCS,
                          symbolic={"registered subset": "index over 3 subsets of %d registrations" % len(LISTING),
                                    "first filter, second filter": "indices over %d queries each (all ordered pairs, including equal ones)" % len(FILTERS2)},
                          note="several query parameters in one request: every one of them has to match (conjunction); a parameter without '=' does not filter"))
    return obs
