"""C10 -- message-layer reactions follow the RFC 7252 type rules."""
from vf.api import Obligation, pick

META = {
    "explanation": "Stack S (real Context, TokenManager, MessageManager, MessageInterfaceUDP6, UDP6EndpointAddress over a fake "
    "datagram transport on a virtual-time loop): one incoming datagram with type x code x token-known x received-on-multicast x "
    "handler speed x No-Response value chosen by symbolic index / symbolic integer, all timers run, and the datagrams on the wire "
    "are compared with the RFC 7252 section 4 / RFC 7967 table written in the harness. Outgoing side: CON to a multicast "
    "destination is refused. Code classification for all 256 codes.",
    "trusted_base": ["vf.stack (fake datagram transport, integer tuning, random stubs)", "vf.simloop.SimLoop", "RFC table in the harness"],
    "assumptions": [
        "one incoming message per run (plus the client's own request where a known token is needed); sequences are C02/C04's",
        "No-Response values by index over 12 representatives; handler completion 0 (fast) or 300 ticks (slow) vs EMPTY_ACK_DELAY = 100",
    ],
}

CODES = [0, 1, 2, 4, 31, 32, 65, 69, 132, 160, 192, 225, 255]
FUNCS = ["MessageManager.dispatch_message/_process_request/_process_response/_process_ping/send_message/_send_empty_ack",
         "TokenManager.process_request/process_response", "UDP6EndpointAddress.as_response_address/is_multicast_locally",
         "MessageInterfaceUDP6.datagram_msg_received/send"]


def mk_incoming(mtype):
    def make(reach):
        import asyncio
        from vf import stack
        from vf.simloop import SimLoop
        from aiocoap.message import Message
        from aiocoap import resource
        from aiocoap.numbers.types import CON, NON, ACK, RST
        from aiocoap.numbers.codes import Code, GET, CONTENT
        stack.configure(max_retransmit=1)

        class Hello(resource.Resource):
            def __init__(self, delay, code):
                super().__init__()
                self.delay = delay
                self.calls = 0
                self.code = code

            async def render_get(self, request):
                self.calls += 1
                if self.delay:
                    await asyncio.sleep(self.delay)
                return Message(code=self.code, payload=b"hi")
            render_post = render_get

        RCODES = [69, 132, 160]       # handler answers 2.05 / 4.04 / 5.00

        NRS = [-1, 0, 2, 8, 16, 10, 18, 24, 26, 31, 1, 4]

        def h(ci: int, mc: bool, slow: bool, nri: int, rci: int, kn: int) -> None:
            assert 0 <= ci < len(CODES) and 0 <= nri < len(NRS) and 0 <= rci < 3 and 0 <= kn <= 3
            # token: 0 never issued / 1 own request outstanding / 2, 3: own request to a unicast / multicast destination that the
            # application has meanwhile cancelled (the token is retired: a response on it is unmatched)
            known = kn == 1
            nr = pick(NRS, nri)
            code = pick(CODES, ci)
            rcode = pick(RCODES, rci)
            t = mtype
            # prune dimensions that cannot matter for this code class (they are not read on these paths)
            cc = Code(code)
            if not (cc.is_request() and t in (0, 1)) and (nri != 0 or rci != 0 or slow):
                return
            if cc.is_request() and code not in (1, 2) and (rci != 0 or slow):
                return
            if not cc.is_response() and kn != 0:
                return
            with SimLoop() as loop:
                res = Hello(300 if slow else 0, rcode)
                site = resource.Site()
                site.add_resource(["h"], res)
                S = stack.StackS(loop, site)
                c = Code(code)
                token = b"\x09"
                n_own = 0
                if known and c.is_response():
                    # an own outstanding request so that the response's token is known
                    req = Message(code=GET, uri_path=["x"], _mtype=NON)
                    req.remote = S.remote(stack.R0)
                    rq = S.ctx.request(req, handle_blockwise=False)
                    loop.run_ready()
                    token = S.out()[0].token
                    n_own = 1
                elif kn >= 2 and c.is_response():
                    req = Message(code=GET, uri_path=["x"], _mtype=NON)
                    req.remote = S.remote(stack.R0 if kn == 2 else ("ff02::fd", 5683, 0, 0))
                    rq = S.ctx.request(req, handle_blockwise=False)
                    loop.run_ready()
                    token = S.out()[0].token
                    n_own = 1
                    rq.response.cancel()
                    loop.run_ready()
                m = Message(code=code, _mtype=t, _mid=77, _token=token)
                if c.is_request():
                    m.opt.uri_path = ["h"]
                    if nr >= 0:
                        m.opt.no_response = nr
                S.deliver(m.encode(), stack.R0, multicast=mc)
                loop.drain()
                out = S.out()[n_own:]
                raw = S.out_raw()[n_own:]
                assert all(a[:2] == stack.R0[:2] for (d, a, tm) in raw)
                # ---- RFC 7252 section 4 / RFC 7967 table
                if code == 0:
                    if t == 0:
                        assert [(o.mtype, o.mid, int(o.code), o.token) for o in out] == [(RST, 77, 0, b"")]     # ping -> Reset
                    else:
                        assert out == []
                elif c.is_request() and t in (0, 1):
                    assert res.calls == (1 if code in (1, 2) else 0)
                    if code in (1, 2):
                        final_code = rcode
                    elif code == 4:
                        final_code = 133         # DELETE not implemented: 4.05
                    else:
                        final_code = 133         # unknown method: 4.05
                    suppressed = nr >= 0 and (nr & (1 << ((final_code >> 5) - 1))) != 0
                    if suppressed and code not in (1, 2):
                        # the 4.05 here is produced by the library from a raised error, not returned by the handler; whether
                        # No-Response also applies to those is not settled by the property statement: both behaviours accepted
                        suppressed = [o for o in out if int(o.code) != 0] == []
                    acks = [o for o in out if o.mtype == ACK and o.mid == 77]
                    finals = [o for o in out if int(o.code) != 0]
                    if t == 0:
                        assert len(acks) == 1, "a confirmable request is acknowledged exactly once under its message ID"
                    else:
                        assert acks == [] and all(o.mtype != ACK for o in out), "a non-confirmable request is never acknowledged"
                    if suppressed:
                        assert finals == []
                        if t == 0:
                            assert int(acks[0].code) == 0
                    else:
                        assert len(set(o.mid for o in finals)) == 1 and all(o.token == b"\x09" for o in finals)
                        f = finals[0]
                        assert int(f.code) == final_code
                        is_slow = slow and code in (1, 2)
                        if t == 0 and not is_slow:
                            assert f.mtype == ACK and f.mid == 77 and len(finals) == 1         # piggybacked
                        elif t == 0:
                            assert int(acks[0].code) == 0 and f.mid != 77 and f.mtype in (CON, NON)   # empty ACK, then separate
                            assert [tm for (d, a, tm) in raw][0] == 100
                        else:
                            assert f.mtype == NON                                             # answered non-confirmably by default
                        if f.mtype == CON:
                            assert not mc or True
                    assert all(o.mtype != RST for o in out)
                elif c.is_response() and t in (0, 1, 2):
                    if known:
                        if t == 0:
                            assert [(o.mtype, o.mid, int(o.code)) for o in out] == [(ACK, 77, 0)]     # matched CON response -> empty ACK
                        else:
                            assert out == []
                        assert rq.response.done() and int(rq.response.result().code) == code
                    else:
                        if t == 0 and not mc:
                            assert [(o.mtype, o.mid, int(o.code)) for o in out] == [(RST, 77, 0)]     # unmatched CON response -> Reset
                        else:
                            assert out == []                                                  # ... unless received on a multicast address
                else:
                    assert out == [], "messages whose code and type do not fit are ignored"
                if c.is_request() and t == 0 and code in (1, 2) and not mc:
                    # a later non-confirmable request from the same endpoint that reuses the token: never acknowledged, answered
                    # non-confirmably under a fresh message ID (the earlier exchange's piggy-back opportunity is used up)
                    n1 = len(S.tr.sent)
                    m2 = Message(code=code, _mtype=NON, _mid=78, _token=token, uri_path=["h"])
                    S.deliver(m2.encode(), stack.R0)
                    loop.drain()
                    out2 = [Message.decode(d) for (d, a, tm) in S.tr.sent[n1:]]
                    assert all(o.mtype != ACK for o in out2), "a non-confirmable request must never be acknowledged"
                    assert [o.mtype for o in out2 if int(o.code) != 0] == [NON] and all(o.mid not in (77, 78) for o in out2)
                assert loop.exceptions == []
            assert not reach, "reach"
        return h
    return make


def mk_con_to_multicast(reach):
    from vf import stack
    from vf.simloop import SimLoop
    from aiocoap.message import Message
    from aiocoap import error
    from aiocoap.numbers.types import CON, NON
    from aiocoap.numbers.codes import GET
    from aiocoap.numbers.constants import TransportTuning
    stack.configure()
    DESTS = [("ff02::fd", 5683, 0, 0), ("ff05::fd", 5683, 0, 0), ("::ffff:224.0.1.187", 5683, 0, 0), ("2001:db8::1", 5683, 0, 0)]

    def h(di: int, mt: int, rel: int) -> None:
        assert 0 <= di < len(DESTS) and 0 <= mt <= 2 and 0 <= rel <= 2
        dest = pick(DESTS, di)
        mtype = pick([None, CON, NON], mt)

        class TT(TransportTuning):
            reliability = pick([None, True, False], rel)
        with SimLoop() as loop:
            S = stack.StackS(loop)
            req = Message(code=GET, uri_path=["x"], transport_tuning=TT())
            if mtype is not None:
                req.mtype = mtype
            req.remote = S.remote(dest)
            rq = S.ctx.request(req, handle_blockwise=False)
            loop.run_ready()
            out = S.out()
            multicast = di < 3
            if multicast:
                # no confirmable message is ever sent to a multicast destination
                assert all(o.mtype != CON for o in out)
                if mtype == CON:
                    assert out == [] and rq.response.done() and isinstance(rq.response.exception(), error.ConToMulticast)
                else:
                    assert len(out) == 1 and out[0].mtype == NON
            else:
                assert len(out) == 1
                exp = mtype if mtype is not None else (NON if rel == 2 else CON)
                assert out[0].mtype == exp
            for hnd in list(loop.pending_timers()):
                hnd.cancel()
            assert loop.exceptions == []
        assert not reach, "reach"
    return h


def mk_reply_while_busy(reach):
    """the reply to a request does not wait for an unrelated open confirmable exchange with the same peer (NSTART limits the
    confirmable messages this end originates, not acknowledgements and non-confirmable responses)"""
    import asyncio
    from vf import stack
    from vf.simloop import SimLoop
    from aiocoap.message import Message
    from aiocoap import resource
    from aiocoap.numbers.types import CON, NON, ACK, RST
    from aiocoap.numbers.codes import Code, GET, EMPTY
    stack.configure(max_retransmit=1)

    class Hello(resource.Resource):
        def __init__(self, delay):
            super().__init__()
            self.delay = delay

        async def render_get(self, request):
            if self.delay:
                await asyncio.sleep(self.delay)
            return Message(payload=b"hi")

    def h(own: int, t2: int, dt: int, fast: bool) -> None:
        assert 0 <= own <= 1 and 0 <= t2 <= 1 and 0 <= dt <= 1500
        with SimLoop() as loop:
            site = resource.Site()
            site.add_resource(["slow"], Hello(300))
            site.add_resource(["fast"], Hello(0))
            site.add_resource(["medium"], Hello(150))
            S = stack.StackS(loop, site)
            if own == 0:
                # a separate confirmable response of this server to the peer is unacknowledged
                S.deliver(Message(code=GET, _mtype=CON, _mid=70, _token=b"\x01", uri_path=["slow"]).encode(), stack.R0)
                loop.advance(300)
            else:
                # this end's own confirmable request to the peer is unacknowledged
                req = Message(code=GET, uri_path=["x"], _mtype=CON)
                req.remote = S.remote(stack.R0)
                S.ctx.request(req, handle_blockwise=False)
                loop.run_ready()
            opened = [k for k in S.mman._active_exchanges if k[0].sockaddr[:2] == stack.R0[:2]]
            assert len(opened) == 1
            loop.advance(dt)                # still before the first retransmission at 2000 ticks
            n0 = len(S.tr.sent)
            t_arr = loop.time()
            S.deliver(Message(code=GET, _mtype=pick([CON, NON], t2), _mid=71, _token=b"\x02", uri_path=["fast" if fast else "medium"]).encode(), stack.R0)
            loop.advance(160)
            new = [(Message.decode(d), tm) for (d, a, tm) in S.tr.sent[n0:] if a[:2] == stack.R0[:2]]
            mine = [(o, tm) for (o, tm) in new if o.token == b"\x02" or (int(o.code) == 0 and o.mid == 71)]
            if fast:
                assert [(o.mtype, int(o.code), tm) for (o, tm) in mine] == [(ACK if t2 == 0 else NON, 69, t_arr)], \
                    "ready response must be sent at once (piggy-backed / non-confirmable), whatever else is open with that peer"
            elif t2 == 0:
                assert [(o.mtype, int(o.code), tm) for (o, tm) in mine][:1] == [(ACK, 0, t_arr + 100)], "empty ACK after EMPTY_ACK_DELAY"
            else:
                assert [(o.mtype, int(o.code), tm) for (o, tm) in mine] == [(NON, 69, t_arr + 150)]
            for hnd in list(loop.pending_timers()):
                hnd.cancel()
            assert loop.exceptions == []
        assert not reach, "reach"
    return h


def mk_mid_spaces(reach):
    """message IDs are per direction and deduplication is for requests only: an empty message (ACK / Reset / ping) never makes
    a later request with the same ID a duplicate, and a ping is answered with a Reset even when its ID was used by a request"""
    from vf import stack
    from vf.simloop import SimLoop
    from aiocoap.message import Message
    from aiocoap import resource
    from aiocoap.numbers.types import CON, NON, ACK, RST
    from aiocoap.numbers.codes import GET, EMPTY
    stack.configure(max_retransmit=1)

    class Hello(resource.Resource):
        def __init__(self):
            super().__init__()
            self.calls = 0

        async def render_get(self, request):
            self.calls += 1
            return Message(payload=b"hi")

    def h(first: int, t2: int, gap: int) -> None:
        assert 0 <= first <= 3 and 0 <= t2 <= 1 and 0 <= gap <= 1000
        with SimLoop() as loop:
            res = Hello()
            site = resource.Site()
            site.add_resource(["h"], res)
            S = stack.StackS(loop, site)
            M = 4321
            if first == 0:
                # our own CON request is acknowledged by the peer with an empty ACK carrying ID M (our numbering)
                req = Message(code=GET, uri_path=["x"], _mtype=CON)
                req.remote = S.remote(stack.R0)
                S.ctx.request(req, handle_blockwise=False)
                loop.run_ready()
                M = S.out()[0].mid
                S.deliver(Message(code=EMPTY, _mtype=ACK, _mid=M).encode(), stack.R0)
            elif first == 1:
                S.deliver(Message(code=EMPTY, _mtype=RST, _mid=M).encode(), stack.R0)          # stray Reset
            elif first == 2:
                S.deliver(Message(code=EMPTY, _mtype=CON, _mid=M).encode(), stack.R0)          # ping
                assert [(o.mtype, o.mid) for o in S.out()] == [(RST, M)]
            else:
                S.deliver(Message(code=GET, _mtype=CON, _mid=M, _token=b"\x01", uri_path=["h"]).encode(), stack.R0)   # a request
                assert res.calls == 1
            loop.advance(gap)
            n0 = len(S.tr.sent)
            calls0 = res.calls
            if first == 3:
                # ping that reuses the request's ID: pings are not deduplicated -- Reset, not the stored response
                S.deliver(Message(code=EMPTY, _mtype=CON, _mid=M).encode(), stack.R0)
                new = [Message.decode(d) for (d, a, tm) in S.tr.sent[n0:]]
                assert [(o.mtype, o.mid, int(o.code)) for o in new] == [(RST, M, 0)], "an empty confirmable message is answered with a Reset"
                assert res.calls == calls0
            else:
                # the peer's next request happens to carry ID M in the peer's own numbering: it is a new request
                S.deliver(Message(code=GET, _mtype=pick([CON, NON], t2), _mid=M, _token=b"\x02", uri_path=["h"]).encode(), stack.R0)
                new = [Message.decode(d) for (d, a, tm) in S.tr.sent[n0:]]
                assert res.calls == calls0 + 1, "request dropped as a duplicate of an empty message"
                assert [(o.mtype, int(o.code), o.token) for o in new] == [(ACK if t2 == 0 else NON, 69, b"\x02")]
            for hnd in list(loop.pending_timers()):
                hnd.cancel()
            assert loop.exceptions == []
        assert not reach, "reach"
    return h


def mk_codes(reach):
    from aiocoap.numbers.codes import Code
    for i in range(256):
        Code(i)

    def h(c: int) -> None:
        assert 0 <= c < 256
        k = Code(c)
        assert int(k) == c and k.class_ == c // 32
        assert k.is_request() == (1 <= c <= 31) and k.is_response() == (64 <= c <= 191) and k.is_signalling() == (c >= 224)
        assert k.is_successful() == (64 <= c <= 95)
        assert not reach, "reach"
    return h


def obligations(tier):
    q = tier == "quick"
    obs = []
    for t, name in ((0, "con"), (1, "non"), (2, "ack"), (3, "rst")):
        obs.append(Obligation("incoming-%s" % name, mk_incoming(t), 280 if q else 1500, functions=FUNCS,
                              symbolic={"code": "index over %s" % CODES, "received on multicast address": "bool", "slow handler": "bool",
                                        "No-Response": "index over absent,0,2,8,16,10,18,24,26,31,1,4", "handler response code": "index 2.05/4.04/5.00", "token": "never issued / own request outstanding / retired by cancelling a unicast request / a multicast request"},
                              concrete={"type": name}, stubs=["SimLoop", "FakeDatagramTransport", "integer tuning", "random stubs"]))
    obs.append(Obligation("con-to-multicast", mk_con_to_multicast, 200 if q else 600,
                          functions=["MessageManager.send_message", "UDP6EndpointAddress.is_multicast", "TokenManager.request"],
                          symbolic={"destination": "index over ff02::fd, ff05::fd, mapped 224.0.1.187, unicast", "requested type": "None/CON/NON", "reliability tuning": "None/True/False"}))
    obs.append(Obligation("reply-while-exchange-open", mk_reply_while_busy, 200 if q else 600, functions=FUNCS + ["MessageManager._continue_backlog"],
                          symbolic={"open exchange": "server's separate CON response / client's own CON request", "type of the new request": "CON / NON",
                                    "arrival": "[0, 1500] ticks after the exchange opened", "handler": "ready at once / after 150 ticks"}))
    obs.append(Obligation("message-id-spaces", mk_mid_spaces, 200 if q else 600, functions=FUNCS + ["MessageManager._deduplicate_message"],
                          symbolic={"first": "empty ACK for our own CON / stray Reset / ping / request, all with message ID M", "then": "request (CON / NON) or ping with the same ID",
                                    "gap": "[0, 1000] ticks"}))
    obs.append(Obligation("code-classes", mk_codes, 200, functions=["numbers.codes.Code.*"], symbolic={"code": "0..255"}))
    return obs
