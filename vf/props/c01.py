"""C01 -- CoAP datagram codec: lossless round trip, RFC 7252 section 3 format, total parsing."""
from vf.api import Obligation, pick

META = {
    "explanation": "Differential harnesses: aiocoap's Message/Options/option-type codecs against a reference RFC 7252 section 3 "
    "codec written in the harness (vf/refcodec.py), with option value bytes, tokens, payloads, message IDs, types, extended "
    "delta/length values and whole short option areas as solver variables; byte-string lengths and the bytes that select option "
    "numbers are enumerated (by the driver or by symbolic index).",
    "trusted_base": ["vf/refcodec.py (reference codec from the RFC text)", "CPython's UTF-8 codec", "enum pre-population (R4)"],
    "assumptions": [
        "R1: lengths of byte strings are concrete per obligation; contents are symbolic",
        "R4: option numbers are pre-populated enum members; fully symbolic option areas are limited to 1..2 bytes (3 thorough)",
        "messages carry at most 3 options from the catalogue; tokens 0..8 bytes; payload 0..2 bytes; strings <= 2 (3) code points",
        "2-byte Content-Format/Accept values are covered in the value-codec obligation by index over registered/unassigned samples",
    ],
}

CATALOGUE = [1, 3, 4, 5, 6, 7, 8, 9, 11, 12, 14, 15, 16, 17, 19, 20, 21, 23, 27, 28, 31, 35, 39, 60, 252, 258, 292, 548,
             2, 10, 13, 65, 269, 270, 1000, 65000, 65535]   # registered numbers + unknown elective/critical + boundary deltas


def _common():
    from aiocoap.numbers.codes import Code
    from aiocoap.numbers.types import Type
    from aiocoap.numbers.optionnumbers import OptionNumber
    from aiocoap.numbers.contentformat import ContentFormat
    from vf import enumkit
    enumkit.prepopulate(Code, range(256))
    enumkit.prepopulate(ContentFormat, range(256))
    return Code, Type, OptionNumber, ContentFormat


def _snap():
    """call after all pre-population: returns restore() to be called at harness entry (R4)"""
    from aiocoap.numbers.codes import Code
    from aiocoap.numbers.optionnumbers import OptionNumber
    from aiocoap.numbers.contentformat import ContentFormat
    from vf import enumkit
    return enumkit.Snapshot(Code, OptionNumber, ContentFormat).restore


def msg_fields(m):
    return (int(m.mtype), int(m.code), m.mid, bytes(m.token), bytes(m.payload),
            [(int(o.number), bytes(o.encode())) for o in m.opt.option_list()])


def mk_extwrite(reach):
    from aiocoap.options import _write_extended_field_value, _read_extended_field_value
    from vf.refcodec import ref_ext, FormatError

    def h(v: int) -> None:
        assert 0 <= v <= 70000
        try:
            got = _write_extended_field_value(v)
        except ValueError:
            got = None
        try:
            ref = ref_ext(v)
        except FormatError:
            ref = None
        assert (got is None) == (ref is None)
        if got is not None:
            assert got[0] == ref[0] and got[1] == ref[1]
            back = _read_extended_field_value(got[0], got[1] + b"xy")
            assert back[0] == v and back[1] == b"xy"
        assert not reach, "reach"
    return h


def mk_extread(L):
    def make(reach):
        from aiocoap.options import _read_extended_field_value
        from aiocoap.error import UnparsableMessage

        def h(nib: int, raw: bytes) -> None:
            assert 0 <= nib <= 15 and len(raw) == L
            ok = True
            res = None
            try:
                res = _read_extended_field_value(nib, raw)
            except UnparsableMessage:
                pass
            except Exception:
                ok = False
            assert ok
            # RFC 7252 3.1
            if nib < 13:
                exp = (nib, raw)
            elif nib == 13:
                exp = (raw[0] + 13, raw[1:]) if L >= 1 else None
            elif nib == 14:
                exp = (raw[0] * 256 + raw[1] + 269, raw[2:]) if L >= 2 else None
            else:
                exp = None
            assert (res is None) == (exp is None)
            if res is not None:
                assert res[0] == exp[0] and res[1] == exp[1]
            assert not reach, "reach"
        return h
    return make


def mk_uint(reach):
    from aiocoap.optiontypes import UintOption

    def h(x: int, raw: bytes) -> None:
        assert 0 <= x < 2 ** 32 and len(raw) == 4
        o = UintOption(7, x)
        e = o.encode()
        n = 0 if x == 0 else (1 if x < 256 else (2 if x < 65536 else (3 if x < 2 ** 24 else 4)))
        assert len(e) == n                              # RFC 7252 3.2: minimal length, no leading zero bytes
        assert int.from_bytes(e, "big") == x
        d = UintOption(7)
        d.decode(e)
        assert d.value == x
        d.decode(raw)                                   # any 4 bytes (non-minimal encodings are accepted and normalised)
        assert d.value == ((raw[0] * 256 + raw[1]) * 256 + raw[2]) * 256 + raw[3]
        assert not reach, "reach"
    return h


def mk_block_enc(reach):
    from aiocoap.optiontypes import BlockOption

    def h(num: int, m: bool, szx: int) -> None:
        assert 0 <= num < 2 ** 20 and 0 <= szx <= 7
        o = BlockOption(23, (num, m, szx))
        e = o.encode()
        v = num * 16 + (8 if m else 0) + szx            # RFC 7959 2.2: NUM | M | SZX
        n = 0 if v == 0 else (1 if v < 256 else (2 if v < 65536 else 3))
        assert len(e) == n and int.from_bytes(e, "big") == v
        assert not reach, "reach"
    return h


def mk_block_dec(L):
    def make(reach):
        from aiocoap.optiontypes import BlockOption

        def h(raw: bytes) -> None:
            assert len(raw) == L
            d = BlockOption(23)
            d.decode(raw)
            w = 0
            for b in raw:
                w = w * 256 + b
            assert d.value.block_number == w // 16 and bool(d.value.more) == (w % 16 >= 8) and d.value.size_exponent == w % 8
            assert int.from_bytes(d.encode(), "big") == w
            assert not reach, "reach"
        return h
    return make


def mk_block_dec_e2(L):
    """E2: BlockOption.decode translated from /repo's source to z3 bit-vectors; raw value of L bytes fully symbolic"""
    def make(reach):
        import z3
        from vf import pysym

        def solve(reach):
            src = __import__("vf.api", fromlist=["x"]).repo_source("aiocoap/optiontypes.py")
            hooks = {"self.BlockwiseTuple": lambda I, p, **kw: dict(kw)}
            I = pysym.Interp(src, "BlockOption", width=64, hooks=hooks)
            raw = pysym.sym_bytes("raw", L)
            paths = I.call("decode", {}, [raw])
            failures, unknown, reach_ok = [], 0, False
            # translation validation on concrete vectors (real function vs encoding)
            from aiocoap.optiontypes import BlockOption
            for vec in (b"", b"\x00", b"\x0e", b"\xff", b"\x12\x34", b"\xff\xff\xff", b"\x00\x00\x08")[: 2 + 2 * L + 1]:
                if len(vec) != L:
                    continue
                d = BlockOption(23)
                d.decode(vec)
                for (pp, o) in paths:
                    sub = [(r, z3.BitVecVal(b, 8)) for r, b in zip(raw, vec)]
                    if z3.is_true(z3.simplify(z3.substitute(pp.cond, *sub))) if sub else True:
                        val = pp.state["_value" if "_value" in pp.state else "value"]
                        got = tuple(z3.simplify(z3.substitute(I.bv(val[k]) if not z3.is_bool(val[k]) else val[k], *sub)) if sub else z3.simplify(I.bv(val[k]) if not z3.is_bool(val[k]) else val[k])
                                    for k in ("block_number", "more", "size_exponent"))
                        exp = (d.value.block_number, bool(d.value.more), d.value.size_exponent)
                        assert (got[0].as_long(), z3.is_true(got[1]), got[2].as_long()) == exp, ("translation check failed", vec, got, exp)
            for (pp, o) in paths:
                if o is not None and o[0] == "raise":
                    failures.append(("decode raises %s" % o[1], {"raw": b"?"}))
                    continue
                r0, _ = I.check(pp.cond)
                reach_ok = reach_ok or r0 == z3.sat
                val = pp.state["value"]
                if L:
                    w = z3.Concat(*raw) if L > 1 else raw[0]
                    wz = z3.ZeroExt(64 - 8 * L, w)
                    num = z3.ZeroExt(64 - (8 * L - 4), z3.Extract(8 * L - 1, 4, w))      # RFC 7959 2.2: NUM = all but the low 4 bits
                    m = z3.Extract(3, 3, w) == 1
                    szx = z3.ZeroExt(61, z3.Extract(2, 0, w))
                else:
                    num, m, szx = I.bv(0), z3.BoolVal(False), I.bv(0)
                post = z3.And(I.bv(val["block_number"]) == num, I.tobool(val["more"]) == m, I.bv(val["size_exponent"]) == szx, *pp.guards)
                r, s = I.check(pp.cond, z3.Not(post))
                if r == z3.sat:
                    mdl = s.model()
                    failures.append(("Block value layout differs from RFC 7959 2.2", {"raw": bytes(pysym.model_int(mdl, b) for b in raw)}))
                elif r != z3.unsat:
                    unknown += 1
            return pysym.finish(I, failures, reach, reach_ok, len(paths), unknown)

        def replay(raw):
            from aiocoap.optiontypes import BlockOption
            d = BlockOption(23)
            d.decode(raw)
            w = int.from_bytes(raw, "big")
            assert (d.value.block_number, bool(d.value.more), d.value.size_exponent) == (w >> 4, bool(w & 8), w & 7)
        return pysym.Runner(reach, solve, replay)
    return make


def mk_string(k):
    def make(reach):
        from aiocoap.optiontypes import StringOption

        def h(s: str) -> None:
            assert len(s) == k
            o = StringOption(11, s)
            e = o.encode()
            assert e == s.encode("utf-8")
            d = StringOption(11)
            d.decode(e)
            assert d.value == s
            assert not reach, "reach"
        return h
    return make


def mk_contentformat(reach):
    Code, Type, OptionNumber, ContentFormat = _common()
    from aiocoap.optiontypes import ContentFormatOption
    SAMPLES = sorted(set([int(c) for c in ContentFormat] + [0, 255, 256, 257, 1000, 9999, 65000, 65534, 65535]))
    for v in SAMPLES:
        ContentFormat(v)

    def h(i: int) -> None:
        assert 0 <= i < len(SAMPLES)
        v = SAMPLES[i]
        o = ContentFormatOption(12, v)
        e = o.encode()
        assert int.from_bytes(e, "big") == v and len(e) == (0 if v == 0 else (1 if v < 256 else 2))
        d = ContentFormatOption(12)
        d.decode(e)
        assert int(d.value) == v
        assert not reach, "reach"
    return h


def mk_single(vlen, with_payload, cf=False, chunk=None):
    """one option: number by symbolic index over the catalogue, value bytes symbolic (concrete length)"""
    def make(reach):
        Code, Type, OptionNumber, ContentFormat = _common()
        from aiocoap.options import Options
        from aiocoap.error import UnparsableMessage
        from vf import refcodec
        CAT = [12, 17] if cf else [n for n in CATALOGUE if n not in (12, 17)]
        if vlen >= 2:
            CAT = [n for n in CAT if n not in (23, 27)]     # Block values of 2..3 bytes: E2 obligation block-decode-e2 (shifts/masks)
        if chunk is not None:
            CAT = CAT[chunk::4]
        for n in CAT:
            OptionNumber(n)
        HEADERS = [refcodec.ref_encode_options([(n, b"\0" * vlen)])[:-vlen or None] for n in CAT]
        restore = _snap()

        def h(i: int, val: bytes, pay: bytes) -> None:
            assert 0 <= i < len(CAT) and len(val) == vlen and len(pay) == (1 if with_payload else 0)
            restore()
            n = CAT[i]
            area = HEADERS[i] + val + ((b"\xff" + pay) if with_payload else b"")
            o = Options()
            ok = True
            rest = None
            try:
                rest = o.decode(area)
            except UnparsableMessage:
                pass
            except Exception:
                ok = False
            assert ok, "only UnparsableMessage may leave the parser"
            fmt = refcodec.FORMATS.get(n, "opaque")
            valid = True
            if fmt == "string":
                try:
                    val.decode("utf-8")
                except UnicodeDecodeError:
                    valid = False
            if rest is None:
                assert not valid                     # a well-formed option area must be parsed
            else:
                lst = list(o.option_list())
                assert len(lst) == 1 and int(lst[0].number) == n
                assert rest == pay
                enc = lst[0].encode()
                if fmt in ("uint", "block"):
                    assert int.from_bytes(enc, "big") == int.from_bytes(val, "big") and (len(enc) == 0 or enc[0] != 0)
                else:
                    assert enc == val
                # the parsed option list round-trips
                o2 = Options()
                assert o2.decode(o.encode()) == b""
                l2 = list(o2.option_list())
                assert len(l2) == 1 and int(l2[0].number) == n and l2[0].encode() == enc
            assert not reach, "reach"
        return h
    return make


EXT_DELTAS = [10, 18, 22, 268, 269, 270, 400, 65000, 65535, 65536, 65804]      # unassigned numbers (opaque format): the delta equals the number
EXT_SECOND = [0, 14, 1000, 65804]       # delta of a second option (0: none); numbers beyond 65535 are legal on the wire (sum of deltas)
EXT_LENS = [12, 13, 14, 100, 268, 269, 270, 300]


def mk_ext_boundaries(reach):
    """one option whose number (= delta) and value length sit at / around the 12/13/268/269 boundaries, so that the delta
    extension and the length extension are both present and differ; first value bytes symbolic"""
    Code, Type, OptionNumber, ContentFormat = _common()
    from aiocoap.options import Options
    from aiocoap.message import Message
    from vf import refcodec
    from aiocoap.optiontypes import OpaqueOption
    restore0 = _snap()
    for n in EXT_DELTAS:
        for d2 in EXT_SECOND:
            assert OptionNumber(n + d2).format is OpaqueOption
    restore0()
    restore = _snap()
    FILL = bytes((i * 5 + 1) % 256 for i in range(400))

    def h(di: int, li: int, si: int) -> None:
        assert 0 <= di < len(EXT_DELTAS) and 0 <= li < len(EXT_LENS) and 0 <= si < len(EXT_SECOND)
        restore()
        n = pick(EXT_DELTAS, di)
        ln = pick(EXT_LENS, li)
        d2 = pick(EXT_SECOND, si)
        val = FILL[:ln]                 # value content is covered by the single-option obligations; here the field widths matter
        opts = [(n, val)] + ([(n + d2, b"zz")] if d2 else [])
        area = refcodec.ref_encode_options(opts) + b"\xffPL"
        o = Options()
        rest = o.decode(area)
        assert rest == b"PL"
        lst = list(o.option_list())
        assert [(int(x.number), bytes(x.encode())) for x in lst] == opts, "extended delta / length fields read in the wrong order or width"
        assert o.encode() + b"\xffPL" == area
        m = Message.decode(bytes([0x40, 0x01, 0x12, 0x34]) + area)
        assert m.payload == b"PL" and [(int(x.number), bytes(x.encode())) for x in m.opt.option_list()] == opts
        assert not reach, "reach"
    return h


def mk_area_total(L, first_lo, first_hi):
    """fully symbolic option area of L bytes whose first byte lies in [first_lo, first_hi)"""
    def make(reach):
        Code, Type, OptionNumber, ContentFormat = _common()
        from aiocoap.options import Options
        from aiocoap.error import UnparsableMessage
        from vf import refcodec, enumkit
        enumkit.prepopulate(OptionNumber, range(0, 300))
        restore = _snap()

        def h(data: bytes) -> None:
            assert len(data) == L and first_lo <= data[0] < first_hi
            restore()
            o = Options()
            ok = True
            rest = None
            try:
                rest = o.decode(data)
            except UnparsableMessage:
                pass
            except Exception:
                ok = False
            assert ok, "only UnparsableMessage may leave the parser"
            try:
                ref = refcodec.ref_decode_options(data)
            except refcodec.FormatError:
                ref = None
            if ref is not None:
                # well-formed per RFC 7252 3.1 unless a string option holds invalid UTF-8
                utf_ok = True
                for n, v in ref[0]:
                    if refcodec.FORMATS.get(n, "opaque") == "string":
                        try:
                            v.decode("utf-8")
                        except UnicodeDecodeError:
                            utf_ok = False
                if utf_ok:
                    assert rest is not None
                    lst = list(o.option_list())
                    assert [int(x.number) for x in lst] == [n for n, v in ref[0]]
                    assert rest == ref[1]
            if rest is not None:
                o2 = Options()
                enc = o.encode()
                assert o2.decode(enc) == b""
                assert [(int(x.number), x.encode()) for x in o2.option_list()] == [(int(x.number), x.encode()) for x in o.option_list()]
            assert not reach, "reach"
        return h
    return make


CODES = [0, 1, 2, 3, 4, 5, 6, 7, 31, 32, 64, 65, 69, 95, 128, 132, 143, 160, 165, 192, 224, 225, 255]
# option catalogue for whole messages: (number, kind, byte length)
# value codecs are separate obligations; Options.encode/decode treat option.encode() as opaque bytes, so typed options carry a
# concrete legal example value here and only opaque-format options carry symbolic content (composition argument)
MSGOPTS = [(1, "opaque", 2), (3, "string", 1), (4, "opaque", 1), (5, "empty", 0), (6, "uint", 0), (6, "uint", 3), (7, "uint", 2),
           (11, "string", 1), (11, "string", 0), (12, "cf", 1), (14, "uint", 4), (15, "string", 2), (23, "block", 1), (27, "block", 3),
           (60, "uint", 1), (258, "uint", 1), (292, "opaque", 0), (2, "opaque", 1), (65, "opaque", 2), (65000, "opaque", 1)]
EXAMPLE = b"\x41\x62\x13\x2a"


def _add_opt(m, OptionNumber, idx, vb):
    """adds MSGOPTS[idx] with value bytes vb[:l] to m; returns (number, raw) or None if the bytes are not a legal value"""
    n, kind, l = MSGOPTS[idx]
    raw = vb[:l] if kind == "opaque" else EXAMPLE[:l]
    if kind in ("uint", "cf"):
        if l > 0 and raw[0] == 0:               # values legal for their format: minimal uint representation
            return None
        m.opt.add_option(OptionNumber(n).create_option(value=int.from_bytes(raw, "big")))
    elif kind == "block":
        if l > 0 and raw[0] == 0:
            return None
        w = int.from_bytes(raw, "big")
        m.opt.add_option(OptionNumber(n).create_option(value=(w // 16, w % 16 >= 8, w % 8)))
    elif kind == "string":
        if not all(b < 128 for b in raw):
            return None
        m.opt.add_option(OptionNumber(n).create_option(value=raw.decode("ascii")))
    elif kind == "empty":
        m.opt.add_option(OptionNumber(n).create_option())
    else:
        m.opt.add_option(OptionNumber(n).create_option(value=raw))
    return (n, raw)


def mk_msg_header(tkl, plen):
    """type, code, MID, token, payload symbolic; one fixed option"""
    def make(reach):
        Code, Type, OptionNumber, ContentFormat = _common()
        from aiocoap.message import Message
        from vf import refcodec

        def h(t: int, ci: int, mid: int, token: bytes, payload: bytes) -> None:
            assert 0 <= t <= 3 and 0 <= ci < len(CODES) and 0 <= mid < 65536 and len(token) == tkl and len(payload) == plen
            m = Message(code=CODES[ci], _mtype=t, _mid=mid, _token=token, payload=payload, uri_path=["a"])
            ref_opts = [(11, b"a")]
            wire = m.encode()
            assert wire == refcodec.ref_encode(t, CODES[ci], mid, token, ref_opts, payload)
            back = Message.decode(wire)
            assert msg_fields(back) == (t, CODES[ci], mid, token, payload, ref_opts)
            assert not reach, "reach"
        return h
    return make


def mk_msg_options(i1, third):
    """fixed header; options MSGOPTS[i1] (concrete shape), MSGOPTS[i2] (symbolic index) and optionally a repeat of the
    first shape, value bytes symbolic"""
    def make(reach):
        Code, Type, OptionNumber, ContentFormat = _common()
        from aiocoap.message import Message
        from vf import refcodec
        for n, k, l in MSGOPTS:
            OptionNumber(n)

        def h(i2: int, v1: bytes, v2: bytes, v3: bytes) -> None:
            assert 0 <= i2 < len(MSGOPTS) and len(v1) == 4 and len(v2) == 4 and len(v3) == 4
            m = Message(code=2, _mtype=1, _mid=0x1234, _token=b"\x07\x08", payload=b"p")
            ref_opts = []
            for idx, vb in ([(i1, v1), (i2, v2)] + ([(i1, v3)] if third else [])):
                r = _add_opt(m, OptionNumber, idx, vb)
                if r is None:
                    return
                ref_opts.append(r)
            ref_opts.sort(key=lambda p: p[0])               # stable: repeated numbers keep insertion order
            wire = m.encode()
            assert wire == refcodec.ref_encode(1, 2, 0x1234, b"\x07\x08", ref_opts, b"p")
            back = Message.decode(wire)
            assert msg_fields(back) == (1, 2, 0x1234, b"\x07\x08", b"p", ref_opts)
            assert not reach, "reach"
        return h
    return make


def mk_header_vttkl(L):
    """first byte (version, type, TKL) fully symbolic, code byte by index, rest symbolic"""
    def make(reach):
        Code, Type, OptionNumber, ContentFormat = _common()
        from aiocoap.message import Message
        from aiocoap.error import UnparsableMessage
        from vf import refcodec

        def h(b0: int, rest: bytes) -> None:
            # option numbers stay 0 here (numbers are other obligations'); tokens may be truncated; code byte: header-code
            assert 0 <= b0 < 256 and len(rest) == L - 2 and all(b >> 4 == 0 or b == 0xFF for b in rest[2:])
            data = bytes([b0, 0x45]) + rest
            ok = True
            m = None
            try:
                m = Message.decode(data)
            except UnparsableMessage:
                pass
            except Exception:
                ok = False
            assert ok, "only UnparsableMessage may leave the parser"
            try:
                ref = refcodec.ref_decode(data)
            except refcodec.FormatError:
                ref = None
            if (b0 >> 6) != 1:
                assert m is None
            if ref is not None:
                assert m is not None
                t, code, mid, token, opts, payload = ref
                assert int(m.mtype) == t and int(m.code) == code and m.mid == mid and m.token == token and m.payload == payload
            assert not reach, "reach"
        return h
    return make


def mk_header_code(reach):
    """code byte fully symbolic (all 256), first byte by index"""
    Code, Type, OptionNumber, ContentFormat = _common()
    from aiocoap.message import Message
    FIRST = [0x40, 0x50, 0x60, 0x70, 0x41, 0x48]

    def h(fi: int, c: int, mid: int) -> None:
        assert 0 <= fi < len(FIRST) and 0 <= c < 256 and 0 <= mid < 65536
        tkl = FIRST[fi] & 15
        data = bytes([FIRST[fi], c, mid >> 8, mid & 255]) + b"\x01\x02\x03\x04\x05\x06\x07\x08"[:tkl]
        m = Message.decode(data)
        assert int(m.code) == c and int(m.mtype) == (FIRST[fi] >> 4) & 3 and m.mid == mid and len(m.token) == tkl
        assert m.code.class_ == c // 32 and m.code.is_request() == (1 <= c < 32) and m.code.is_response() == (64 <= c < 192)
        assert not reach, "reach"
    return h


def mk_short(L):
    def make(reach):
        from aiocoap.message import Message
        from aiocoap.error import UnparsableMessage

        def h(data: bytes) -> None:
            assert len(data) == L
            ok = False
            try:
                Message.decode(data)
            except UnparsableMessage:
                ok = True
            except Exception:
                pass
            assert ok, "datagrams shorter than 4 bytes are unparsable"
            assert not reach, "reach"
        return h
    return make


VALID = [
    bytes.fromhex("44017d34 01020304 b474657374 ff 6869".replace(" ", "")),          # CON GET /test + payload
    bytes.fromhex("6245beef aabb 6105 c132 ff 00".replace(" ", "")),                  # ACK 2.05 observe, content-format
    bytes.fromhex("5802 0001 0102030405060708 3d 00 61626364656667686970717273 d1 0a 07".replace(" ", "")),  # NON POST, ext len 13, ext delta
]


def mk_mutation(k, mode, lo, hi):
    """mode 'replace'/'insert': byte at symbolic position (by index, lo <= pos < hi) replaced by / preceded by a symbolic byte;
    mode 'trunc': truncated at a symbolic index"""
    def make(reach):
        Code, Type, OptionNumber, ContentFormat = _common()
        from aiocoap.message import Message, Direction
        from aiocoap.error import UnparsableMessage
        from vf import enumkit
        enumkit.prepopulate(OptionNumber, range(0, 600))
        base = VALID[k]
        PREF = [base[:i] for i in range(len(base) + 1)]
        SUFF = [base[i + 1:] for i in range(len(base))] + [b""]
        REST = [base[i:] for i in range(len(base) + 1)]
        restore = _snap()

        def h(pos: int, b: int) -> None:
            assert lo <= pos < hi and 0 <= b < 256
            restore()
            if mode == "replace":
                data = PREF[pos] + bytes([b]) + SUFF[pos]
            elif mode == "insert":
                data = PREF[pos] + bytes([b]) + REST[pos]
            else:
                data = PREF[pos]
            ok = True
            m = None
            try:
                m = Message.decode(data)
            except UnparsableMessage:
                pass
            except Exception:
                ok = False
            assert ok, "only UnparsableMessage may leave the parser"
            if m is not None:
                f1 = msg_fields(m)
                m.direction = Direction.OUTGOING
                again = Message.decode(m.encode())
                assert msg_fields(again) == f1
            assert not reach, "reach"
        return h
    return make


def obligations(tier):
    q = tier == "quick"
    T = 120 if q else 900
    obs = [
        Obligation("extfield-write", mk_extwrite, T, functions=["options._write_extended_field_value", "options._read_extended_field_value"],
                   symbolic={"v": "[0,70000]"}),
        Obligation("uint-codec", mk_uint, T, functions=["optiontypes.UintOption.encode/decode", "optiontypes._to_minimum_bytes"],
                   symbolic={"x": "[0,2^32)", "raw": "4 bytes"}),
        Obligation("block-encode", mk_block_enc, T, functions=["optiontypes.BlockOption.encode"],
                   symbolic={"num": "[0,2^20)", "m": "bool", "szx": "0..7"}),
        Obligation("contentformat-codec", mk_contentformat, T, functions=["optiontypes.ContentFormatOption.encode/decode"],
                   symbolic={"i": "index over registered content formats and unassigned samples up to 65535"}),
    ]
    for L in range(4):
        obs.append(Obligation("extfield-read-L%d" % L, mk_extread(L), T, functions=["options._read_extended_field_value"],
                              symbolic={"nibble": "0..15", "rawdata": "%d bytes" % L}))
    for L in range(2):     # longer values: E2 (pysym) obligation
        obs.append(Obligation("block-decode-L%d" % L, mk_block_dec(L), T, functions=["optiontypes.BlockOption.decode/encode"],
                              symbolic={"raw": "%d bytes" % L}))
    for L in range(4):
        obs.append(Obligation("block-decode-e2-L%d" % L, mk_block_dec_e2(L), T, kind="pysym", functions=["optiontypes.BlockOption.decode (AST -> z3 BV64)"],
                              symbolic={"raw": "%d bytes (BitVec 8 each)" % L}, stubs=["BlockwiseTuple constructor -> record of its keyword arguments"]))
    for k in ([1, 2] if q else [1, 2, 3]):
        obs.append(Obligation("string-codec-len%d" % k, mk_string(k), T, functions=["optiontypes.StringOption.encode/decode"],
                              symbolic={"s": "str of %d code points" % k}))
    for vlen in ([1] if q else [0, 1]):      # 2-byte values: contentformat-codec (by index) -- a symbolic 16-bit value makes ContentFormat._missing_ create members per path
        obs.append(Obligation(
            "single-option-cf-vlen%d" % vlen, mk_single(vlen, False, cf=True), 250 if q else 1500,
            functions=["options.Options.decode/encode", "optiontypes.ContentFormatOption.decode/encode", "ContentFormat._missing_"],
            symbolic={"option number": "Content-Format / Accept by index", "value": "%d bytes" % vlen}))
    for vlen in ([0, 1, 2] if q else [0, 1, 2, 3]):
        for wp in (False, True):
            if wp and (vlen not in (0, 2) or q):
                continue
            for chunk in ([None] if vlen < 2 else [0, 1, 2, 3]):
                obs.append(Obligation(
                    "single-option-vlen%d%s%s" % (vlen, "-payload" if wp else "", "" if chunk is None else "-part%d" % chunk),
                    mk_single(vlen, wp, chunk=chunk), 250 if q else 1200,
                    functions=["options.Options.decode/encode", "OptionNumber.create_option", "optiontypes.*.decode/encode"],
                    symbolic={"option number": "index over %s catalogue numbers" % ("all %d" % (len(CATALOGUE) - 2) if chunk is None else "every 4th of the"),
                              "value": "%d bytes" % vlen, "payload": "1 byte" if wp else "none"},
                    concrete={"option header bytes": "computed by the reference encoder for each catalogue number"}))
    obs.append(Obligation("ext-boundaries", mk_ext_boundaries, 280 if q else 900, functions=["options.Options.decode/encode", "options._read/_write_extended_field_value", "message.Message.decode"],
                          symbolic={"option number (delta)": "index over %s" % EXT_DELTAS, "value length": "index over %s" % EXT_LENS,
                                    "delta of a second option": "index over %s (0: no second option); the sums reach 131608 > 65535" % EXT_SECOND}))
    # fully symbolic short option areas, split by first byte over the workers
    splits = [(i, i + 16) for i in range(0, 256, 16)]
    obs.append(Obligation("area-total-L1", mk_area_total(1, 0, 256), T, functions=["options.Options.decode/encode"],
                          symbolic={"option area": "1 byte"}))
    splits2 = [sp for sp in splits if sp[0] != 0xd0] + [(0xd0 + i, 0xd0 + i + 4) for i in range(0, 16, 4)]
    if q:
        splits2 = [sp for sp in splits2 if sp[0] in (0x00, 0x30, 0xb0, 0xc0, 0xd0, 0xe0, 0xf0)]
    for lo, hi in splits2:
        obs.append(Obligation("area-total-L2-%02x" % lo, mk_area_total(2, lo, hi), 280 if q else 1500,
                              functions=["options.Options.decode/encode", "options._read_extended_field_value"],
                              symbolic={"option area": "2 bytes, first in [%d,%d)" % (lo, hi)}))
    if not q:
        # one obligation per first byte (delta and length nibbles concrete, two symbolic bytes after it).  Outside: first bytes
        # with length nibble 0/1 (the remaining bytes then form a second, fully symbolic option: as expensive as all of L2 per
        # first byte, did not finish in 600 s each), the 16-bit extended delta (0xe?) and a 2-byte Content-Format value (0xc2):
        # OptionNumber / ContentFormat._missing_ with a symbolic 16-bit value is enumerated value by value by the engine
        # (NotDeterministic after the first member is cached).  Those shapes are covered by index in ext-boundaries,
        # contentformat-codec and msg-options-*.
        for lo, hi in [(b, b + 1) for b in range(256) if (b & 15) >= 2 and (b >> 4) <= 13 and b != 0xc2]:
            obs.append(Obligation("area-total-L3-%02x" % lo, mk_area_total(3, lo, hi), 300,
                                  functions=["options.Options.decode/encode", "options._read_extended_field_value"],
                                  symbolic={"option area": "3 bytes, first in [%d,%d)" % (lo, hi)}))
    for tkl, plen in ([(0, 0), (3, 1), (8, 2)] if q else [(t, p) for t in range(9) for p in (0, 1, 2)]):
        obs.append(Obligation(
            "msg-header-tkl%d-pay%d" % (tkl, plen), mk_msg_header(tkl, plen), 200 if q else 900,
            functions=["message.Message.encode/decode"],
            symbolic={"type": "0..3", "code": "index over %d codes" % len(CODES), "mid": "16 bit", "token": "%d bytes" % tkl,
                      "payload": "%d bytes" % plen}, concrete={"options": "Uri-Path 'a'"}))
    for i1 in ([0, 5, 8, 13, 19] if q else range(len(MSGOPTS))):
        third = True
        obs.append(Obligation(
            "msg-options-first%02d%s" % (i1, "-rep" if third else ""), mk_msg_options(i1, third), 200 if q else 900,
            functions=["message.Message.encode/decode", "options.Options.encode/decode", "optiontypes.*"],
            symbolic={"second option": "index over %d (number, format, length) shapes" % len(MSGOPTS), "value bytes": "symbolic"},
            concrete={"first option shape": list(MSGOPTS[i1]), "repeat of first option as third": third, "header": "NON POST mid 0x1234 tkl 2"}))
    for L in ([4] if q else [4, 5, 6]):
        obs.append(Obligation("header-vttkl-L%d" % L, mk_header_vttkl(L), 250 if q else 900, functions=["message.Message.decode"],
                              symbolic={"first byte": "0..255", "remaining bytes": "%d symbolic" % (L - 2)}, concrete={"code byte": "0x45"}))
    obs.append(Obligation("header-code", mk_header_code, 250 if q else 900, functions=["message.Message.decode", "numbers.codes.Code"],
                          symbolic={"code byte": "0..255", "first byte": "index over 6", "mid": "16 bit"}))
    for L in range(4):
        obs.append(Obligation("short-L%d" % L, mk_short(L), T, functions=["message.Message.decode"], symbolic={"datagram": "%d bytes" % L}))
    for k in range(len(VALID)):
        n = len(VALID[k])
        step = 12 if q else 6
        if q and k != 2:
            continue
        for mode in ("replace", "insert"):
            top = n + (1 if mode == "insert" else 0)
            for lo in range(0, top, step):
                hi = min(lo + step, top)
                obs.append(Obligation("mutation-%d-%s-%02d" % (k, mode, lo), mk_mutation(k, mode, lo, hi), 250 if q else 900,
                                      functions=["message.Message.decode/encode", "options.Options.decode/encode"],
                                      symbolic={"position": "index %d..%d" % (lo, hi - 1), "byte": "0..255"},
                                      concrete={"base datagram": VALID[k].hex(), "mode": mode}))
        obs.append(Obligation("mutation-%d-trunc" % k, mk_mutation(k, "trunc", 0, n + 1), T,
                              functions=["message.Message.decode/encode"], symbolic={"truncation point": "index 0..%d" % n},
                              concrete={"base datagram": VALID[k].hex()}))
    return obs
