"""C14 -- NSTART=1: one open confirmable exchange per peer, FIFO backlog, none forgotten."""
from vf.api import Obligation

META = {
    "explanation": "The real MessageManager is driven from a symbolic pre-state (per remote: exchange open?, retransmissions already "
    "made, backlog length 0..2, built through the real send_message API) through symbolic event sequences over 2 remotes x "
    "{submit CON, submit NON, ACK, RST, ACK with wrong MID, retransmission timer, transport error}; after every event the wire "
    "log and the failure reports are compared with a reference NSTART=1 queue model written from the property statement.",
    "trusted_base": ["vf.simloop.SimLoop", "vf.mmkit fakes above/below MessageManager", "reference NSTART model in the harness"],
    "assumptions": [
        "2 remotes, backlog length <= 2 in the pre-state, MAX_RETRANSMIT = 1, event sequences of the stated depth",
        "event kinds and remotes are chosen by symbolic index (R2/R9); message contents are concrete",
        "the failure of queued requests is observed as the error report to the token manager for that remote (the real "
        "TokenManager.dispatch_error then fails every request of that remote: covered by C02/C03 stack obligations)",
    ],
}

FUNCS = ["MessageManager.send_message", "MessageManager._send_initially", "MessageManager._add_exchange",
         "MessageManager._remove_exchange", "MessageManager._continue_backlog", "MessageManager._retransmit",
         "MessageManager.dispatch_error", "MessageManager.dispatch_message"]

NK = 8   # event kinds per remote


def mk_seq(first, depth):
    """events: [first (concrete or None), then symbolic ...] total `depth` events after a symbolic pre-state"""
    def make(reach):
        from vf import mmkit
        from vf.simloop import SimLoop
        from aiocoap.message import Message, Direction
        from aiocoap.numbers.constants import TransportTuning
        from aiocoap.numbers.types import CON, ACK, RST, NON
        from aiocoap.numbers.codes import GET, EMPTY
        from aiocoap import error
        mmkit.setup()

        class TT(TransportTuning):
            ACK_TIMEOUT = 2000
            ACK_RANDOM_FACTOR = 1
            MAX_RETRANSMIT = 1

        def h(a0: bool, q0: int, c0: bool, a1: bool, q1: int, c1: bool, e1: int, e2: int, e3: int, peer_mid: bool) -> None:
            assert 0 <= q0 <= 2 and 0 <= q1 <= 2 and (a0 or (q0 == 0 and not c0)) and (a1 or (q1 == 0 and not c1))
            assert 0 <= e1 < 2 * NK and 0 <= e2 < 2 * NK and 0 <= e3 < 2 * NK
            assert depth < 3 or e1 < 14         # depth 3: the stranger's ACK / Reset is the first or the last event, not the middle one
            evs = ([first] if first is not None else []) + [e1, e2, e3]
            evs = evs[:depth]
            with SimLoop() as loop:
                tm, mm, mi = mmkit.make(loop)
                R = [mmkit.Remote(0), mmkit.Remote(1)]
                # reference model
                outstanding = [None, None]     # message awaiting ack
                retx = [0, 0]
                queue = [[], []]
                expect_sent = []               # expected wire log (message identities, in order)
                expect_errors = []             # expected (exception class, remote index)
                serial = [0]

                def submit(r, con):
                    m = Message(code=GET, transport_tuning=TT(), uri_path=["x"])
                    m.remote = R[r]
                    m.token = bytes([serial[0]])
                    serial[0] += 1
                    m.mtype = CON if con else NON
                    mm.send_message(m, lambda: None)
                    if not con:
                        expect_sent.append(m)            # NON is never delayed
                    elif outstanding[r] is None:
                        outstanding[r] = m
                        retx[r] = 0
                        expect_sent.append(m)
                    else:
                        queue[r].append(m)

                def release(r):
                    outstanding[r] = None
                    if queue[r]:
                        nxt = queue[r].pop(0)
                        outstanding[r] = nxt
                        retx[r] = 0
                        expect_sent.append(nxt)          # as soon as the previous exchange ended

                def fail_all(r, exc_class):
                    outstanding[r] = None
                    queue[r] = []
                    expect_errors.append((exc_class, r))

                def reply(r, mtype, right_mid):
                    if outstanding[r] is None and right_mid:
                        return
                    mid = outstanding[r].mid if outstanding[r] is not None else 0
                    if not right_mid:
                        mid = (mid + 1000) % 65536
                    a = Message(code=EMPTY, _mtype=mtype, _mid=mid)
                    a.remote = R[r]
                    a.direction = Direction.INCOMING
                    mm.dispatch_message(a)
                    if right_mid:
                        release(r)

                def timer(r):
                    if outstanding[r] is None:
                        return
                    key = (R[r], outstanding[r].mid)
                    assert key in mm._active_exchanges, "open exchange unknown to the message manager"
                    handle = mm._active_exchanges[key][1]
                    loop.fire(handle)
                    if retx[r] < 1:
                        retx[r] += 1
                        expect_sent.append(outstanding[r])
                    else:
                        fail_all(r, error.ConRetransmitsExceeded)

                def transport_error(r):
                    mm.dispatch_error(OSError(111, "refused"), R[r])
                    fail_all(r, OSError)

                def check():
                    loop.run_ready()
                    got = [m for (t, m, b) in mi.sent]
                    assert len(got) == len(expect_sent)
                    assert all(g is e for g, e in zip(got, expect_sent))
                    assert len(tm.errors) == len(expect_errors)
                    for (t, exc, rem), (cls, r) in zip(tm.errors, expect_errors):
                        assert isinstance(exc, cls) and rem == R[r]
                    # at most one confirmable message per remote awaiting its acknowledgement
                    for r in (0, 1):
                        act = [k for k in mm._active_exchanges if k[0] == R[r]]
                        assert len(act) == (1 if outstanding[r] is not None else 0)
                    assert loop.exceptions == []

                if peer_mid:
                    # history: remote 0 earlier sent us requests that carry the message IDs our next messages are going to get
                    # (the two directions number their messages independently)
                    for k in range(3):
                        pm = Message(code=GET, _mtype=NON, _mid=(mm.message_id + k) % 65536, _token=b"\x70", transport_tuning=TT())
                        pm.remote = R[0]
                        pm.direction = Direction.INCOMING
                        mm.dispatch_message(pm)
                    loop.run_ready()
                    for hnd in list(loop.pending_timers()):
                        hnd.cancel()
                # pre-state through the real API
                for r, (a, q, c) in enumerate(((a0, q0, c0), (a1, q1, c1))):
                    if a:
                        submit(r, True)
                        for _ in range(q):
                            submit(r, True)
                        if c:
                            timer(r)
                check()
                for e in evs:
                    kind, r = divmod(e, 2)
                    if kind == 0:
                        submit(r, True)
                    elif kind == 1:
                        submit(r, False)
                    elif kind == 2:
                        reply(r, ACK, True)
                    elif kind == 3:
                        reply(r, RST, True)
                    elif kind == 4:
                        reply(r, ACK, False)
                    elif kind == 5:
                        timer(r)
                    elif kind == 7:
                        # an empty ACK (remote 0) / Reset (remote 1) from an endpoint that is not the exchange's peer but carries
                        # the open exchange's message ID: no effect on the exchange
                        if outstanding[r] is not None:
                            a = Message(code=EMPTY, _mtype=ACK if r == 0 else RST, _mid=outstanding[r].mid)
                            a.remote = mmkit.Remote(2)
                            a.direction = Direction.INCOMING
                            mm.dispatch_message(a)
                    else:
                        transport_error(r)
                    check()
                # eventually: run all timers; everything still queued behind a silent peer fails, nothing hangs
                n = 0
                while outstanding[0] is not None or outstanding[1] is not None:
                    for r in (0, 1):
                        timer(r)
                    check()
                    n += 1
                    assert n < 10
                assert mm._active_exchanges == {} and mm._backlogs == {}
                assert loop.pending_timers() == []
            assert not reach, "reach"
        return h
    return make


def obligations(tier):
    obs = []
    q = tier == "quick"
    # both tiers: depth 2 for every first event
    for first in range(2 * NK):
        obs.append(Obligation(
            name="nstart-first%02d-depth2" % first, make=mk_seq(first, 2),
            timeout=600 if q else 1200, functions=FUNCS,
            symbolic={"pre-state per remote": "open? x retransmitted? x backlog 0..2", "events after the first": "index 0..15 each (submit CON / NON, ACK, RST, ACK with wrong MID, timer, transport error, ACK or RST from a stranger with the open MID; per remote)",
                      "peer earlier used the same message IDs in its own requests": "bool"},
            concrete={"first event": first, "depth": 2, "MAX_RETRANSMIT": 1, "remotes": 2},
            stubs=["SimLoop", "RecTokenManager", "RecMessageInterface", "random stub"]))
    if not q:
        # thorough adds depth 3 for two first events (submit CON / ACK on remote 0).  Depth 3 for all 14 first events of the
        # earlier 7-kind catalogue was discharged once (4215 s on 8 cores); after the catalogue grew there was no time to
        # run the full sweep again, so only what was re-run end to end is registered.
        for first in (0, 4):
            obs.append(Obligation(
                name="nstart-first%02d-depth3" % first, make=mk_seq(first, 3), timeout=3000, functions=FUNCS,
                symbolic={"pre-state per remote": "open? x retransmitted? x backlog 0..2", "events after the first": "2 indices (the middle one over the 14 events without the stranger's)",
                          "peer earlier used the same message IDs in its own requests": "bool"},
                concrete={"first event": first, "depth": 3, "MAX_RETRANSMIT": 1, "remotes": 2},
                stubs=["SimLoop", "RecTokenManager", "RecMessageInterface", "random stub"]))
    return obs
