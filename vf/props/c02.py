"""C02 -- a response reaches exactly the request it answers; every request completes once."""
from vf.api import Obligation, pick

META = {
    "explanation": "Stack S as client: two requests (types and destinations by symbolic index over two endpoints) are started through "
    "the real Context.request; then a sequence of events chosen by symbolic index over a catalogue -- responses with token in "
    "{A's, B's, never issued} x source in {A's endpoint, same address other port, other address} x type {CON, NON, ACK} x MID "
    "{request's, other}, Reset / empty ACK for a request, duplicate of the previous datagram, transport error per endpoint, "
    "the next retransmission timer, shutdown -- is applied and a monitor written from the statement decides which request (if "
    "any) each response must be delivered to, which Resets / ACKs must appear, and that every result completes exactly once "
    "with a Message or an aiocoap Error. Token generation is checked separately for all counter values.",
    "trusted_base": ["vf.stack (fake datagram transport, integer tuning, random stubs)", "vf.simloop.SimLoop", "monitor in the harness"],
    "assumptions": [
        "2 concurrent requests, 2 (quick) / 3 (thorough) events after them, then shutdown of the context to flush",
        "endpoint identity = (address, port) as documented by UDP6EndpointAddress; multicast requests outside",
        "a request whose CON was acknowledged and whose response never arrives may legitimately stay pending until shutdown",
    ],
}

FUNCS = ["TokenManager.request/process_response/next_token/dispatch_error/shutdown", "protocol.Context.request", "protocol.Request._run",
         "MessageManager.dispatch_message/_process_response/_remove_exchange/dispatch_error/_retransmit", "pipe.Pipe",
         "UDP6EndpointAddress.__eq__/__hash__"]

# event catalogue: ("resp", token_sel, src_sel, type_sel, mid_sel) | ("rst", who) | ("eack", who) | ("dup",) | ("err", endpoint) |
# ("timer",) | ("shutdown",) | ("shutdown-race",)
TOK = ["A", "B", "never"]
SRCSEL = ["own", "otherport", "otherip"]


def catalogue():
    cat = []
    for tk in TOK:
        for src in SRCSEL:
            for tp in (0, 1, 2):
                for md in (0, 1):
                    if md == 1 and tp != 2 and src != "own":
                        continue          # 'other MID' only matters for ACKs and for the own endpoint
                    cat.append(("resp", tk, src, tp, md))
    cat += [("rst", "A"), ("rst", "B"), ("eack", "A"), ("eack", "B"), ("dup",), ("err", 0), ("err", 1), ("timer",), ("shutdown",)]
    cat += [("shutdown-race", k) for k in range(7)]
    cat += [("cancelled-early", 0), ("cancelled-early", 1)]
    cat += [("followup", 0), ("followup", 1)]
    return cat


CAT = catalogue()
# reduced catalogue for the middle event of depth-3 sequences: the state-changing representatives (events after a shutdown are
# not applied, so shutdown is never a middle event)
CAT2 = [("resp", "A", "own", 0, 0), ("resp", "A", "own", 2, 0), ("resp", "never", "own", 0, 0),
        ("resp", "A", "otherport", 0, 0), ("rst", "A"), ("eack", "A"), ("dup",), ("err", 0),
        ("timer",), ("cancelled-early", 0), ("followup", 0)]
assert all(c in CAT for c in CAT2)


def mk_events(first, depth, combos3=True, only_combo=None):
    def make(reach):
        import asyncio
        from vf import stack
        from vf.simloop import SimLoop
        from aiocoap.message import Message
        from aiocoap import error
        from aiocoap.numbers.types import CON, NON, ACK, RST
        from aiocoap.numbers.codes import GET, CONTENT, EMPTY
        stack.configure(ack_timeout=2000, ack_random_factor=1, max_retransmit=1)
        EPS = [stack.R0, stack.R1]
        OTHERPORT = {stack.R0: stack.R1, stack.R1: ("2001:db8::1", 1002, 0, 0)}
        OTHERIP = {stack.R0: stack.R2, stack.R1: ("2001:db8::7", 1001, 0, 0)}

        COMBOS = [(0, 0, 0), (0, 1, 1), (1, 0, 0)] if combos3 else [(a, b, c) for a in (0, 1) for b in (0, 1) for c in (0, 1)]

        def h(cmb: int, e2: int, e3: int) -> None:
            assert 0 <= cmb < len(COMBOS) and 0 <= e2 < len(CAT) and 0 <= e3 < len(CAT) and (depth < 3 or CAT[e2] in CAT2)
            assert only_combo is None or cmb == only_combo
            ta, tb, eb = pick(COMBOS, cmb)
            evs = [first, e2, e3][:depth]
            with SimLoop() as loop:
                S = stack.StackS(loop)
                reqs = {}
                done = {"A": [], "B": []}
                for name, tsel, ep in (("A", ta, 0), ("B", tb, eb)):
                    m = Message(code=GET, uri_path=[name], _mtype=pick([CON, NON], tsel))
                    m.remote = S.remote(pick(EPS, ep))
                    rq = S.ctx.request(m, handle_blockwise=False)
                    rq.response.add_done_callback(lambda f, name=name: done[name].append(1))
                    reqs[name] = dict(rq=rq, msg=m, ep=pick(EPS, ep), outstanding=True, acked=False, result=None)
                loop.run_ready()
                tokA, tokB = reqs["A"]["msg"].token, reqs["B"]["msg"].token
                assert tokA != tokB and len(tokA) <= 8 and len(tokB) <= 8, "tokens of concurrently outstanding requests differ"
                toks = {"A": tokA, "B": tokB, "never": b"\x77\x77\x77"}
                last = None
                serial = [0]
                down = False

                def fail_all(ep_addr, cls):
                    for r in reqs.values():
                        if r["outstanding"] and (ep_addr is None or r["ep"][:2] == ep_addr[:2]):
                            r["outstanding"] = False
                            r["result"] = cls

                def inject(data, src):
                    n0 = len(S.tr.sent)
                    S.deliver(data, src)
                    # replies of the message layer (empty ACK / Reset); requests released from the NSTART backlog by this
                    # event are not replies
                    return [(m, a) for (m, a) in ((Message.decode(d), a) for (d, a, t) in S.tr.sent[n0:]) if int(m.code) == 0]

                def do_response(data, src, tok, tp, mid, tag):
                    # monitor: which request is this response for?
                    target = None
                    for name, r in reqs.items():
                        if r["outstanding"] and toks[name] == tok and r["ep"][:2] == src[:2]:
                            target = name
                    out = inject(data, src)
                    if target is not None:
                        r = reqs[target]
                        r["outstanding"] = False
                        r["result"] = tag
                        assert r["rq"].response.done() and r["rq"].response.result().payload == tag, "response not delivered to its request"
                        if tp == 0:
                            assert [(o.mtype, o.mid, int(o.code)) for (o, a) in out] == [(ACK, mid, 0)] and out[0][1][:2] == src[:2]
                        else:
                            assert out == []
                    else:
                        if tp == 0:
                            assert [(o.mtype, o.mid, int(o.code)) for (o, a) in out] == [(RST, mid, 0)], "unmatched CON response -> one Reset"
                            assert out[0][1][:2] == src[:2]
                        else:
                            assert out == [], "unmatched NON / ACK is never answered"

                for e in evs:
                    if down:
                        break
                    ev = pick(CAT, e)
                    kind = ev[0]
                    if kind == "resp":
                        _, tk, srcsel, tp, md = ev
                        owner = reqs["A"] if tk in ("A", "never") else reqs["B"]
                        src = owner["ep"] if srcsel == "own" else (OTHERPORT[owner["ep"]] if srcsel == "otherport" else OTHERIP[owner["ep"]])
                        mid = owner["msg"].mid if md == 0 else (owner["msg"].mid + 500) % 65536
                        serial[0] += 1
                        tag = b"r%d" % serial[0]
                        msg = Message(code=CONTENT, payload=tag, _mtype=pick([CON, NON, ACK], tp), _mid=mid, _token=toks[tk])
                        data = msg.encode()
                        if tp == 2 and md == 0 and srcsel == "own" and owner["msg"].mtype == CON:
                            owner["acked"] = True
                        do_response(data, src, toks[tk], tp, mid, tag)
                        last = ("resp", data, src, toks[tk], tp, mid, tag)
                    elif kind in ("rst", "eack"):
                        r = reqs[ev[1]]
                        data = Message(code=EMPTY, _mtype=RST if kind == "rst" else ACK, _mid=r["msg"].mid).encode()
                        live = (r["ep"], r["msg"].mid) in [(k[0].sockaddr, k[1]) for k in S.mman._active_exchanges]
                        out = inject(data, r["ep"])
                        assert [o for (o, a) in out if o.mtype in (ACK, RST)] == [], "Resets and empty ACKs are never answered"
                        if kind == "rst" and live and r["outstanding"]:
                            r["outstanding"] = False
                            r["result"] = error.Error
                        elif kind == "eack" and live:
                            r["acked"] = True
                        last = ("raw", data, r["ep"])
                    elif kind == "dup":
                        if last is None:
                            continue
                        if last[0] == "resp":
                            _, data, src, tok, tp, mid, tag = last
                            do_response(data, src, tok, tp, mid, tag)
                        else:
                            out = inject(last[1], last[2])
                            assert [o for (o, a) in out if o.mtype in (ACK, RST)] == []
                    elif kind == "cancelled-early":
                        # a further request whose result the application cancels before the event loop got to sending it: its
                        # token is retired at once, a later response on it is an unknown response
                        md = Message(code=GET, uri_path=["D"], _mtype=CON)
                        md.remote = S.remote(stack.R2)
                        # resolving the destination takes one loop iteration, during which the application cancels
                        real_recognize = S.mint.recognize_remote

                        async def slow_recognize(remote):
                            await asyncio.sleep(0)
                            return await real_recognize(remote)
                        S.mint.recognize_remote = slow_recognize
                        rqd = S.ctx.request(md, handle_blockwise=False)
                        rqd.response.cancel()
                        loop.run_ready()
                        S.mint.recognize_remote = real_recognize
                        if md.token:
                            tp = ev[1]
                            data = Message(code=CONTENT, payload=b"late", _mtype=pick([CON, NON], tp), _mid=4711, _token=md.token).encode()
                            out = inject(data, stack.R2)
                            if tp == 0:
                                assert [(o.mtype, o.mid) for (o, a) in out] == [(RST, 4711)], "response on a retired token must be answered with Reset"
                            else:
                                assert out == []
                        S.icmp_error(stack.R2)          # stop the abandoned exchange's retransmissions
                        last = None
                    elif kind == "followup":
                        # a further confirmable request to one of the endpoints: it is transmitted at once unless an exchange with
                        # that endpoint is really still open (NSTART), and it takes part in everything that follows
                        ep = pick(EPS, ev[1])
                        serial[0] += 1
                        name = "F%d" % serial[0]
                        busy = any(k[0].sockaddr[:2] == ep[:2] for k in S.mman._active_exchanges)
                        mf = Message(code=GET, uri_path=[name], _mtype=CON)
                        mf.remote = S.remote(ep)
                        n0 = len(S.tr.sent)
                        rqf = S.ctx.request(mf, handle_blockwise=False)
                        done[name] = []
                        rqf.response.add_done_callback(lambda f, name=name: done[name].append(1))
                        reqs[name] = dict(rq=rqf, msg=mf, ep=ep, outstanding=True, acked=False, result=None)
                        loop.run_ready()
                        toks[name] = mf.token
                        assert all(toks[o] != mf.token for o, r in reqs.items() if o != name and o in toks and r["outstanding"]), "token of an outstanding request reused"
                        sent_now = [Message.decode(d) for (d, a, t) in S.tr.sent[n0:] if a[:2] == ep[:2]]
                        if busy:
                            assert [x for x in sent_now if x.token == mf.token] == [], "second confirmable message to a peer with an open exchange"
                        else:
                            assert [x.token for x in sent_now if int(x.code) != 0] == [mf.token], "follow-up request to an idle peer was not transmitted"
                        last = None
                    elif kind == "err":
                        ep = pick(EPS, ev[1])
                        S.icmp_error(ep)
                        fail_all(ep, error.NetworkError)
                        last = None
                    elif kind == "timer":
                        tms = loop.pending_timers()
                        if not tms:
                            continue
                        hnd = loop._earliest(tms)
                        before = {k[0].sockaddr[:2] for k in S.mman._active_exchanges}
                        n_err0 = len(S.tr.sent)
                        loop.fire(hnd)
                        after = {k[0].sockaddr[:2] for k in S.mman._active_exchanges}
                        for gone in before - after:
                            # give-up of the open exchange: every request to that endpoint fails with a timeout-class error
                            fail_all(gone + (0, 0), error.ConRetransmitsExceeded)
                        last = None
                    else:
                        if kind == "shutdown-race":
                            # a third request is submitted while the shutdown is in progress: after ev[1] steps of the event loop
                            t = loop.create_task(S.ctx.shutdown())
                            loop.run_steps(ev[1])
                            mc = Message(code=GET, uri_path=["C"], _mtype=NON)
                            mc.remote = S.remote(stack.R1)
                            rqc = S.ctx.request(mc, handle_blockwise=False)
                            done["C"] = []
                            rqc.response.add_done_callback(lambda f: done["C"].append(1))
                            reqs["C"] = dict(rq=rqc, msg=mc, ep=stack.R1, outstanding=True, acked=False, result=None)
                            loop.run_ready()
                        else:
                            t = S.shutdown()
                        loop.drain()
                        assert t.done() and t.exception() is None
                        fail_all(None, error.LibraryShutdown)
                        down = True
                    # invariants after every event
                    for name, r in reqs.items():
                        f = r["rq"].response
                        assert len(done[name]) <= 1, "result completed twice"
                        if not r["outstanding"]:
                            assert f.done(), "request not completed although it was answered / failed"
                            if isinstance(r["result"], bytes):
                                assert f.result().payload == r["result"]
                            else:
                                assert isinstance(f.exception(), r["result"]) and isinstance(f.exception(), error.Error)
                        else:
                            assert not f.done(), "request completed without matching response or failure"
                # flush: shut the context down; whatever is still outstanding fails with the shutdown error
                if not down:
                    t = S.shutdown()
                    loop.drain()
                    assert t.done() and t.exception() is None
                    fail_all(None, error.LibraryShutdown)
                for name, r in reqs.items():
                    f = r["rq"].response
                    assert f.done() and len(done[name]) == 1, "every request completes exactly once"
                    if isinstance(r["result"], bytes):
                        assert f.result().payload == r["result"]
                    else:
                        assert isinstance(f.exception(), r["result"]) and isinstance(f.exception(), error.Error)
                assert loop.exceptions == [] or all("InvalidStateError" not in repr(x) for x in loop.exceptions)
                assert loop.exceptions == []
            assert not reach, "reach"
        return h
    return make


def mk_tokens(reach):
    """E2: TokenManager.next_token translated to z3 bit-vectors: the token is the big-endian counter value without leading zero
    bytes -- a function of the value with an inverse, so different counter values (mod 2^64) give different tokens"""
    import z3
    from vf import pysym

    def solve(reach):
        src = __import__("vf.api", fromlist=["x"]).repo_source("aiocoap/tokenmanager.py")
        I = pysym.Interp(src, "TokenManager", width=80)
        a = z3.BitVec("a", 80)
        I.pre = z3.And(a >= 0, z3.ULT(a, I.bv(2 ** 64)))
        # translation validation on concrete vectors
        import aiocoap.tokenmanager as tmod

        class Ctx:
            log = None
            loop = None
        for vec in (0, 1, 254, 255, 256, 65535, 2 ** 32 - 1, 2 ** 56, 2 ** 64 - 2, 2 ** 64 - 1):
            tm = tmod.TokenManager.__new__(tmod.TokenManager)
            tm._token = vec
            real = tm.next_token()
            outs = I.call("next_token", {"_token": I.bv(vec)}, [])
            assert len(outs) == 1, "translation check: one path for a concrete value"
            got = bytes(z3.simplify(b).as_long() for b in outs[0][1][1])
            assert got == real and z3.simplify(outs[0][0].state["_token"]).as_long() == tm._token, ("translation check failed", vec)
        paths = I.call("next_token", {"_token": a}, [])
        failures, unknown, reach_ok = [], 0, False
        succ = z3.URem(a + 1, I.bv(2 ** 64))
        for (p, o) in paths:
            if o is None or o[0] != "return":
                failures.append(("next_token raises", {"a": 0}))
                continue
            r0, _ = I.check(p.cond)
            reach_ok = reach_ok or r0 == z3.sat
            tok = o[1]
            val = I.bv(0)
            for b in tok:
                val = (val << 8) | z3.ZeroExt(72, b)
            claims = [("token longer than 8 bytes", z3.BoolVal(len(tok) <= 8)),
                      ("token value differs from the counter (tokens of different counters could collide)", val == succ),
                      ("leading zero byte (not the minimal form; two byte strings for one value)", tok[0] != 0 if tok else z3.BoolVal(True)),
                      ("counter not advanced", p.state["_token"] == succ),
                      ("machine-word side condition can fail", z3.And(*p.guards) if p.guards else z3.BoolVal(True))]
            for text, c in claims:
                r, s_ = I.check(p.cond, z3.Not(c))
                if r == z3.sat:
                    failures.append((text, {"a": pysym.model_int(s_.model(), a)}))
                elif r != z3.unsat:
                    unknown += 1
        return pysym.finish(I, failures, reach, reach_ok, len(paths), unknown)

    def replay(a):
        import aiocoap.tokenmanager as tmod
        seen = {}
        for v in (a, (a + 1) % 2 ** 64, (a << 8) % 2 ** 64, a >> 8):
            tm = tmod.TokenManager.__new__(tmod.TokenManager)
            tm._token = v
            t = tm.next_token()
            assert len(t) <= 8 and int.from_bytes(t, "big") == (v + 1) % 2 ** 64 and (t == b"" or t[0] != 0)
            assert seen.setdefault(t, v) == v, "two counter values share a token"
    return pysym.Runner(reach, solve, replay)


def mk_tokens_consecutive(reach):
    import aiocoap.tokenmanager as tmod

    class Ctx:
        log = None
        loop = None

    class R:
        def randint(self, a, b):
            return 0
    tmod.random = R()
    STARTS = [0, 254, 255, 65534, 65535, 2 ** 16, 2 ** 24 - 2, 2 ** 32 - 2, 2 ** 56 - 3, 2 ** 64 - 3]

    def h(si: int) -> None:
        assert 0 <= si < len(STARTS)
        tm = tmod.TokenManager(Ctx())
        tm._token = pick(STARTS, si)
        toks = [tm.next_token() for _ in range(300)]
        assert len(set(toks)) == 300 and all(len(t) <= 8 for t in toks)
        assert not reach, "reach"
    return h


def obligations(tier):
    q = tier == "quick"
    obs = []
    # both tiers: depth 2 for every first event
    for first in range(len(CAT)):
        obs.append(Obligation("events-first%02d" % first, mk_events(first, 2), 280 if q else 900, functions=FUNCS,
                              symbolic={"(type of A, type of B, endpoint of B)": "index over 3 combinations", "later events": "1 index over %d catalogue entries" % len(CAT)},
                              concrete={"first event": repr(CAT[first])},
                              stubs=["SimLoop", "FakeDatagramTransport", "integer tuning", "random stubs"]))
    if not q:
        # thorough adds depth 3 (middle event over %d state-changing representatives) for six first events and one type /
        # endpoint combination each.  The sweep over all first events and combinations is about 12 CPU hours and was not seen
        # to finish in the time available; only what was run end to end is registered.
        for ev, cmb in [(("resp", "A", "own", 2, 0), 1), (("rst", "A"), 0), (("eack", "A"), 0), (("err", 0), 2), (("timer",), 0), (("followup", 0), 1)]:
            first = CAT.index(ev)
            obs.append(Obligation("events3-first%02d-c%d" % (first, cmb), mk_events(first, 3, only_combo=cmb), 1500, functions=FUNCS,
                                  symbolic={"later events": "2 indices over %d catalogue entries (middle event: %d state-changing representatives)" % (len(CAT), len(CAT2))},
                                  concrete={"first event": repr(CAT[first]), "combination": cmb},
                                  stubs=["SimLoop", "FakeDatagramTransport", "integer tuning", "random stubs"]))
    obs.append(Obligation("token-injective-e2", mk_tokens, 300, kind="pysym", functions=["TokenManager.next_token (AST -> z3 BV80)"],
                          symbolic={"counter value": "[0, 2^64) as BitVec"},
                          stubs=["translator rules for int.to_bytes(n,'big') and bytes.lstrip(b'\\0'), validated on 10 concrete vectors per run"]))
    obs.append(Obligation("token-consecutive", mk_tokens_consecutive, 200, functions=["TokenManager.next_token"],
                          symbolic={"start": "index over byte-length boundaries"}, concrete={"consecutive tokens": 300}))
    return obs
