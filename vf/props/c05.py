"""C05 -- block-wise client transfers deliver both bodies intact or fail loudly."""
from vf.api import Obligation, pick

META = {
    "explanation": "The real BlockwiseRequest (through Context.request) talks to an independent RFC 7959 reference server plugged in "
    "at the RequestInterface boundary. The server checks every request on the wire (contiguous offsets, NUM x size = offset, more-"
    "flag exactly on non-final blocks, size exponent never growing) and reassembles the request body; request / response body "
    "lengths (by symbolic index over block-boundary values), server and client size exponents, the block index at which the "
    "server lowers its block size and the kind of server misbehaviour are chosen by symbolic index; bodies are checked "
    "byte-for-byte. Kernels (_extract_block, BlockwiseTuple arithmetic, _generate_next_block2_request) with symbolic integers.",
    "trusted_base": ["reference RFC 7959 server in the harness (RefServer)", "vf.simloop.SimLoop"],
    "assumptions": [
        "per-block loss / duplication is the message layer's (C03/C04); BERT (exponent 7) outside",
        "body lengths by index over values around every block boundary for exponents 0,1,2 and around 1024/1124/2048 for exponent 6",
    ],
}

FUNCS = ["protocol.BlockwiseRequest._run/_complete_by_requesting_block2", "message.Message._extract_block/_append_response_block/_generate_next_block2_request",
         "optiontypes.BlockOption.BlockwiseTuple.start/size/reduced_to/is_valid_for_payload_size", "protocol.Context.request/find_remote_and_interface"]

PATTERN = bytes((i * 7 + 3) % 251 for i in range(6000))
RPATTERN = bytes((i * 11 + 5) % 253 for i in range(6000))


class Remote:
    is_multicast = False
    is_multicast_locally = False
    maximum_payload_size = 1124
    scheme = "coap"
    hostinfo = "h"
    hostinfo_local = "l"

    def __init__(self, exp=6):
        self.maximum_block_size_exp = exp

    def as_response_address(self):
        return self

    @property
    def blockwise_key(self):
        return ("R",)

    def __repr__(self):
        return "<R>"


class RefServer:
    """Independent RFC 7959 server (one response per request).  szx: preferred size exponent; reduce_at: (block index, new exponent)
    or None; body_out: representation served; misbehave: None or a variant name."""

    def __init__(self, loop, remote, szx, body_out, reduce_at=None, misbehave=None, etag=b"e1"):
        from aiocoap.message import Message, Direction
        self.Message, self.Direction = Message, Direction
        self.loop, self.remote, self.szx, self.body_out = loop, remote, szx, body_out
        self.reduce_at, self.misbehave, self.etag = reduce_at, misbehave, etag
        self.acc = b""
        self.body_in = None
        self.violations = []
        self.last_exp = None
        self.requests = 0
        self.block2_served = 0
        self.expect_b2_offset = None
        self.misbehaved = False

    async def recognize_remote(self, msg):
        return msg.remote is self.remote

    async def determine_remote(self, msg):
        return self.remote

    def _reply(self, pipe, resp):
        resp.remote = self.remote
        resp.direction = self.Direction.INCOMING
        self.loop.call_soon(pipe.add_response, resp, True)

    def request(self, pipe):
        from aiocoap.numbers.codes import CHANGED, CONTINUE, CONTENT, BAD_REQUEST
        Message = self.Message
        req = pipe.request
        self.requests += 1
        b1, b2 = req.opt.block1, req.opt.block2
        # ---- Block2 continuation of the response body
        if b2 is not None and b2.block_number > 0:
            size = 2 ** (b2.size_exponent + 4)
            if self.expect_b2_offset is None or b2.block_number * size != self.expect_b2_offset:
                self.violations.append("Block2 request offset %d, expected %r" % (b2.block_number * size, self.expect_b2_offset))
            if b2.size_exponent > self.b2_exp:
                self.violations.append("Block2 size exponent grew")
            return self._serve_block2(pipe, b2.block_number, min(b2.size_exponent, self.b2_exp), CONTENT)
        # ---- request body
        if b1 is not None:
            size = 2 ** (b1.size_exponent + 4)
            if b1.size_exponent > 6:
                self.violations.append("BERT not negotiated")
            if b1.block_number * size != len(self.acc):
                self.violations.append("Block1 NUM x size = %d but %d bytes received so far" % (b1.block_number * size, len(self.acc)))
            if self.last_exp is not None and b1.size_exponent > self.last_exp:
                self.violations.append("Block1 size exponent grew")
            if b1.more and len(req.payload) != size:
                self.violations.append("non-final block of %d bytes with size %d" % (len(req.payload), size))
            if not b1.more and len(req.payload) > size:
                self.violations.append("final block longer than the block size")
            self.acc += req.payload
            index = len(self.acc) // size if b1.more else None
            szx = min(self.szx, b1.size_exponent)
            if self.reduce_at is not None and b1.more and self.requests - 1 >= self.reduce_at[0]:
                szx = min(szx, self.reduce_at[1])
            self.last_exp = szx
            ack_num = b1.block_number
            if b1.more:
                if self.misbehave == "wrong-block1-number" and b1.block_number >= 1:
                    self.misbehaved = True
                    ack_num = b1.block_number + 1
                resp = Message(code=CONTINUE)
                resp.opt.block1 = (ack_num, True, szx)
                return self._reply(pipe, resp)
            self.body_in = self.acc
            if self.misbehave == "more-on-final-ack":
                self.misbehaved = True
                resp = Message(code=CHANGED)
                resp.opt.block1 = (b1.block_number, True, szx)
                return self._reply(pipe, resp)
            if self.misbehave == "continue-on-final":
                self.misbehaved = True
                resp = Message(code=CONTINUE)
                resp.opt.block1 = (b1.block_number, False, szx)
                return self._reply(pipe, resp)
            final_b1 = (b1.block_number, False, szx)
            if self.misbehave in ("wrong-final-block1-number-low", "wrong-final-block1-number-high") and b1.block_number >= 1:
                # the final acknowledgement names another block than the one just sent
                self.misbehaved = True
                final_b1 = (b1.block_number - 1 if self.misbehave.endswith("low") else b1.block_number + 1, False, szx)
        else:
            if self.acc:
                self.violations.append("request without Block1 in the middle of a transfer")
            self.body_in = bytes(req.payload)
            final_b1 = None
        # ---- final response, possibly first Block2 block
        want_exp = b2.size_exponent if b2 is not None else 6
        self.b2_exp = min(self.szx, want_exp)
        return self._serve_block2(pipe, 0, self.b2_exp, CHANGED if req.code != 1 else CONTENT, final_b1)

    def _serve_block2(self, pipe, num, exp, code, final_b1=None):
        Message = self.Message
        size = 2 ** (exp + 4)
        body = self.body_out
        mis = self.misbehave
        self.block2_served += 1
        n_served = self.block2_served
        if len(body) <= size and num == 0:
            resp = Message(code=code, payload=body)
            if final_b1 is not None:
                resp.opt.block1 = final_b1
            return self._reply(pipe, resp)
        start = num * size
        if mis == "block2-skip" and n_served == 2:
            self.misbehaved = True
            num += 1
            start = num * size
        if mis == "block2-repeat" and n_served == 2:
            self.misbehaved = True
            num -= 1
            start = num * size
        if mis == "block2-restart-bigger" and n_served == 2:
            self.misbehaved = True
            num, exp, size, start = 0, 6, 1024, 0
        chunk = body[start:start + size]
        more = start + size < len(body)
        if mis == "block2-short" and n_served == 2 and more:
            self.misbehaved = True
            chunk = chunk[:-1]
        resp = Message(code=code, payload=chunk)
        resp.opt.block2 = (num, more, exp)
        if mis in ("etag-changes", "etag-disappears", "etag-appears") and n_served >= 2:
            self.misbehaved = True
        resp.opt.etag = self.etag if not (mis == "etag-changes" and n_served >= 2) else b"e2"
        if (mis == "etag-disappears" and n_served >= 2) or (mis == "etag-appears" and n_served < 2):
            resp.opt.etag = None            # the representation changed to / from one served without ETag
        if final_b1 is not None:
            resp.opt.block1 = final_b1
        self.expect_b2_offset = start + size if more else None
        self.b2_exp = exp
        return self._reply(pipe, resp)


def _setup():
    import logging
    from aiocoap.numbers.codes import Code
    from aiocoap.numbers.optionnumbers import OptionNumber
    for i in range(256):
        Code(i)
    for i in range(64):
        OptionNumber(i)


SMALL_LENS = [0, 1, 15, 16, 17, 31, 32, 33, 48, 63, 64, 65, 100]
BIG_LENS = [1023, 1024, 1025, 1124, 1125, 2047, 2048, 2049, 2500, 3073]


def mk_transfer(srv_exp, cl_exp, big):
    def make(reach):
        _setup()
        from vf.simloop import SimLoop
        from aiocoap.protocol import Context
        from aiocoap.message import Message
        from aiocoap.numbers.codes import PUT, POST, CHANGED
        from aiocoap import error
        LENS = (BIG_LENS if big != "quick" else [1024, 1025, 1125, 2049, 3073]) if big else SMALL_LENS
        RED = [None, (0, 0), (1, 0), (0, 1), (1, 3), (2, 2), (0, 3), (1, 4)]

        def h(li: int, mi: int, ri: int) -> None:
            assert 0 <= li < len(LENS) and 0 <= mi < len(LENS) and 0 <= ri < len(RED)
            L, M = pick(LENS, li), pick(LENS, mi)
            red = pick(RED, ri)
            if red is not None and red[1] >= min(srv_exp, cl_exp):
                return
            with SimLoop() as loop:
                ctx = Context(loop=loop, loggername="vf-null")
                r = Remote(cl_exp)
                body, rbody = PATTERN[:L], RPATTERN[:M]
                srv = RefServer(loop, r, srv_exp, rbody, reduce_at=red)
                ctx.request_interfaces.append(srv)
                m = Message(code=PUT, payload=body, uri_path=["x"])
                m.remote = r
                rq = ctx.request(m)
                loop.run_ready()
                assert rq.response.done(), "transfer did not finish"
                assert rq.response.exception() is None, "conforming server, yet the transfer failed"
                res = rq.response.result()
                assert srv.violations == [], "block options on the wire are inconsistent"
                assert srv.body_in == body, "server reassembled a different request body"
                assert res.payload == rbody and res.code == CHANGED, "caller got a different response body"
                assert loop.exceptions == []
            assert not reach, "reach"
        return h
    return make


MIS = ["wrong-block1-number", "more-on-final-ack", "continue-on-final", "etag-changes", "block2-short", "block2-skip", "block2-repeat",
       "block2-restart-bigger", "etag-disappears", "etag-appears", "wrong-final-block1-number-low", "wrong-final-block1-number-high"]


def mk_misbehave(srv_exp, cl_exp, big):
    def make(reach):
        _setup()
        from vf.simloop import SimLoop
        from aiocoap.protocol import Context
        from aiocoap.message import Message
        from aiocoap.numbers.codes import PUT
        from aiocoap import error
        LENS = [2049, 2500, 3073] if big else [33, 48, 65, 100]

        def h(li: int, mi: int, vi: int) -> None:
            assert 0 <= li < len(LENS) and 0 <= mi < len(LENS) and 0 <= vi < len(MIS)
            L, M = pick(LENS, li), pick(LENS, mi)
            mis = pick(MIS, vi)
            with SimLoop() as loop:
                ctx = Context(loop=loop, loggername="vf-null")
                r = Remote(cl_exp)
                body, rbody = PATTERN[:L], RPATTERN[:M]
                srv = RefServer(loop, r, srv_exp, rbody, misbehave=mis)
                ctx.request_interfaces.append(srv)
                m = Message(code=PUT, payload=body, uri_path=["x"])
                m.remote = r
                rq = ctx.request(m)
                loop.run_ready()
                assert rq.response.done(), "transfer did not finish"
                exc = rq.response.exception()
                if not srv.misbehaved:
                    # the variant did not apply to this shape (e.g. body sent unfragmented): an ordinary transfer
                    assert exc is None and rq.response.result().payload == rbody and srv.body_in == body
                else:
                    if exc is None:
                        got = rq.response.result().payload
                        assert got == rbody, "truncated, duplicated or mixed body returned from a misbehaving server"
                        assert False, "sequencing violation by the server must end the request with an error"
                    assert isinstance(exc, error.Error), "must fail with a library error"
                assert loop.exceptions == []
            assert not reach, "reach"
        return h
    return make


def mk_extract_block(reach):
    _setup()
    from aiocoap.message import Message
    from aiocoap.numbers.codes import PUT
    from aiocoap import error
    LENS = [0, 1, 15, 16, 17, 32, 33, 1023, 1024, 1025, 2049]

    def h(li: int, szx: int, num: int) -> None:
        assert 0 <= li < len(LENS) and 0 <= szx <= 6 and 0 <= num <= 200
        L = pick(LENS, li)
        sx = pick(list(range(7)), szx)
        size = 2 ** (sx + 4)
        m = Message(code=PUT, payload=PATTERN[:L])
        try:
            b = m._extract_block(num, sx, 1124)
        except error.BadRequest:
            b = None
        if num * size >= L:
            assert b is None, "block beyond the end must be refused"
        else:
            assert b is not None
            assert b.payload == PATTERN[num * size:min((num + 1) * size, L)]
            o = b.opt.block1
            assert o.block_number == num and bool(o.more) == ((num + 1) * size < L) and o.size_exponent == sx
        assert not reach, "reach"
    return h


def mk_tuple(reach):
    from aiocoap.optiontypes import BlockOption
    BT = BlockOption.BlockwiseTuple

    def h(num: int, more: bool, szx: int, mx: int, plen: int) -> None:
        assert 0 <= num < 2 ** 20 and 0 <= szx <= 6 and 0 <= mx <= 6 and 0 <= plen <= 2048
        sx = pick(list(range(7)), szx)
        mxx = pick(list(range(7)), mx)
        t = BT(num, more, sx)
        assert t.size == 2 ** (sx + 4) and t.start == num * 2 ** (sx + 4)
        assert t.is_valid_for_payload_size(plen) == ((plen == t.size) if more else (plen <= t.size))
        r = t.reduced_to(mxx)
        assert r.size_exponent == min(sx, mxx), "exponent never grows"
        assert r.block_number * 2 ** (r.size_exponent + 4) == t.start, "NUM x size preserved under reduction"
        assert bool(r.more) == more
        assert not reach, "reach"
    return h


def mk_next_block2(reach):
    _setup()
    from aiocoap.message import Message
    from aiocoap.numbers.codes import GET, CONTENT

    def h(k: int, szx: int, mx: int) -> None:
        assert 1 <= k <= 40 and 0 <= szx <= 6 and 0 <= mx <= 6
        kk = pick(list(range(41)), k)
        sx = pick(list(range(7)), szx)
        mxx = pick(list(range(7)), mx)
        size = 2 ** (sx + 4)
        resp = Message(code=CONTENT, payload=RPATTERN[:1] * (kk * size))
        resp.opt.block2 = (kk - 1, True, sx)
        resp.remote = Remote(mxx)
        req = Message(code=GET, uri_path=["x"], payload=b"body", block1=(0, False, 0), observe=0)
        nxt = req._generate_next_block2_request(resp)
        b = nxt.opt.block2
        assert b.size_exponent == min(sx, mxx) and b.block_number * 2 ** (b.size_exponent + 4) == kk * size and not b.more
        assert nxt.payload == b"" and nxt.opt.block1 is None and nxt.opt.observe is None and nxt.opt.uri_path == ("x",)
        assert not reach, "reach"
    return h


def obligations(tier):
    q = tier == "quick"
    obs = []
    small = [(0, 0), (2, 1), (1, 2), (2, 2)] if q else [(s, c) for s in (0, 1, 2) for c in (0, 1, 2)]
    for s, c in small:
        obs.append(Obligation("transfer-srv%d-cl%d" % (s, c), mk_transfer(s, c, False), 280 if q else 1200, functions=FUNCS,
                              symbolic={"request body length": "index over %s" % SMALL_LENS, "response body length": "same list",
                                        "server lowers its block size at (request index, new exponent)": "index over 8 (incl. none)"},
                              concrete={"server size exponent": s, "client maximum_block_size_exp": c}, stubs=["RefServer at the RequestInterface boundary", "SimLoop"]))
    for s, c in ([(6, 6), (3, 6)] if q else [(6, 6), (3, 6), (6, 4), (5, 6), (0, 6)]):
        obs.append(Obligation("transfer-big-srv%d-cl%d" % (s, c), mk_transfer(s, c, "quick" if q else True), 280 if q else 3000, functions=FUNCS,
                              symbolic={"request body length": "index over %s" % BIG_LENS, "response body length": "same list",
                                        "server lowers its block size at": "index over 8 (incl. none; drops of up to 6 exponent steps)"},
                              concrete={"server size exponent": s, "client maximum_block_size_exp": c}))
    for s, c, big in ([(0, 0, False), (2, 6, False), (6, 6, True)] if q else [(0, 0, False), (2, 2, False), (2, 6, False), (6, 6, True), (4, 6, True)]):
        obs.append(Obligation("misbehaving-server-srv%d-cl%d%s" % (s, c, "-big" if big else ""), mk_misbehave(s, c, big), 280 if q else 1200, functions=FUNCS,
                              symbolic={"variant": "index over %s" % MIS, "body lengths": "indices"}, concrete={"server exponent": s, "client exponent": c}))
    obs.append(Obligation("kernel-extract-block", mk_extract_block, 280 if q else 900, functions=FUNCS[1:2],
                          symbolic={"payload length": "index over 11 boundary lengths", "size exponent": "0..6", "block number": "0..200"}))
    obs.append(Obligation("kernel-blockwise-tuple", mk_tuple, 280 if q else 900, functions=FUNCS[2:3],
                          symbolic={"NUM": "[0,2^20)", "more": "bool", "exponent / maximum exponent": "0..6 each", "payload size": "[0,2048]"}))
    obs.append(Obligation("kernel-next-block2-request", mk_next_block2, 280 if q else 900, functions=FUNCS[1:2],
                          symbolic={"assembled blocks": "1..40", "exponent": "0..6", "remote's maximum exponent": "0..6"}))
    return obs
