"""C15 -- CoAP over TCP: framing independent of segmentation, signalling rules enforced."""
from vf.api import Obligation, pick

META = {
    "explanation": "Kernels: _encode_length / _extract_message_size against the RFC 8323 3.2 reading for every length < 2^32+65805 "
    "and every header of 0..5 symbolic bytes (incl. prefix-determinism); _serialize/_decode_message against a reference frame "
    "codec with payload lengths at the 12/13 and 268/269 boundaries. Segmentation: every 2-cut (3-cut thorough) chunking of "
    "catalogue streams, cut positions by symbolic index, must dispatch exactly what the unchunked stream dispatches; a one-step "
    "obligation from a spool holding an incomplete header. Rules on the real TcpConnection/_TCPPooling/TokenManager: CSM gate, "
    "oversize frames (symbolic announced length), TKL 9..15, unparsable option area, critical options in signalling messages "
    "(symbolic option number), Ping/Pong token, Release/Abort failing pending requests, empty messages ignored.",
    "trusted_base": ["reference RFC 8323 frame codec in the harness", "fake stream transport / fake pool", "vf.simloop.SimLoop"],
    "assumptions": [
        "chunk contents are concrete catalogue streams (6 messages, 30-60 bytes); cut positions by symbolic index (R9)",
        "header kernels fully symbolic up to 5 bytes; lengths up to 2^32+65805",
        "what the endpoint does with bytes following a frame it aborted on is not specified: compared up to the first Abort",
    ],
}


def ref_len(n):
    """RFC 8323 3.2: Len nibble and extended length"""
    if n < 13:
        return n, b""
    if n < 269:
        return 13, bytes([n - 13])
    if n < 65805:
        return 14, (n - 269).to_bytes(2, "big")
    return 15, (n - 65805).to_bytes(4, "big")


def ref_frame(code, token, body):
    nib, ext = ref_len(len(body))
    return bytes([(nib << 4) | len(token)]) + ext + bytes([code]) + token + body


class FakeStream:
    def __init__(self):
        self.written = []
        self.closed = False
        self.discarded = False

    def write(self, b):
        self.written.append(bytes(b))

    def close(self):
        self.closed = True

    def abort(self):
        # asyncio: abort() closes immediately and discards whatever is still buffered -- a frame written just before is
        # not guaranteed to reach the peer
        self.closed = True
        self.discarded = True

    def get_extra_info(self, k, default=None):
        return {"sockname": ("::1", 5683, 0, 0), "peername": ("::2", 4000, 0, 0)}.get(k, default)


class RecTM:
    def __init__(self, events):
        self.events = events

    def process_request(self, msg):
        self.events.append(("msg", int(msg.code), bytes(msg.token), msg.opt.encode(), bytes(msg.payload)))

    def process_response(self, msg):
        self.events.append(("msg", int(msg.code), bytes(msg.token), msg.opt.encode(), bytes(msg.payload)))
        return True

    def dispatch_error(self, exc, remote):
        self.events.append(("err", type(exc).__name__))


def FakePool():
    """the real _TCPPooling dispatch code above a recording token manager"""
    from aiocoap.transports import tcp

    class Pool(tcp._TCPPooling):
        def __init__(self):
            self.events = []
            self._tokenmanager = RecTM(self.events)
            self.log = None

        def _evict_from_pool(self, connection):
            pass
    return Pool()


def _setup():
    import logging
    from aiocoap.numbers.codes import Code
    from aiocoap.numbers.optionnumbers import OptionNumber
    for i in range(256):
        Code(i)
    for i in range(64):
        OptionNumber(i)
    return logging.getLogger("vf-null")


def mk_encode_length(reach):
    from aiocoap.transports import tcp

    def h(n: int, tkl: int) -> None:
        assert 0 <= n < 2 ** 32 + 65805 and 0 <= tkl <= 15
        nib, ext = tcp._encode_length(n)
        rn, rext = ref_len(n)
        assert nib == rn and ext == rext
        # the receiver reads back the same size from these header bytes (plus arbitrary following bytes)
        hdr = bytes([(nib << 4) | tkl]) + ext
        r = tcp._extract_message_size(hdr + b"\x01\x02")
        assert r is not None and r[0] == 2 + len(ext) and r[1] == tkl and r[2] == n
        assert not reach, "reach"
    return h


def mk_extract(L):
    def make(reach):
        from aiocoap.transports import tcp

        def h(hdr: bytes, more: bytes) -> None:
            assert len(hdr) == L and len(more) == 2
            r = tcp._extract_message_size(hdr)
            # RFC 8323 3.2 reading
            if L == 0:
                exp = None
            else:
                nib, tkl = hdr[0] >> 4, hdr[0] & 15
                ext = 0 if nib < 13 else (1 if nib == 13 else (2 if nib == 14 else 4))
                if L < 1 + ext:
                    exp = None
                else:
                    v = 0
                    for b in hdr[1:1 + ext]:
                        v = v * 256 + b
                    exp = (2 + ext, tkl, nib if nib < 13 else v + (13 if nib == 13 else (269 if nib == 14 else 65805)))
            assert (r is None) == (exp is None)
            if r is not None:
                assert r[0] == exp[0] and r[1] == exp[1] and r[2] == exp[2]
                # prefix-determined: more bytes do not change the answer
                r2 = tcp._extract_message_size(hdr + more)
                assert r2[0] == r[0] and r2[1] == r[1] and r2[2] == r[2]
            assert not reach, "reach"
        return h
    return make


BODYLENS = [0, 1, 11, 12, 13, 14, 267, 268, 269, 270]


def mk_serialize(reach):
    _setup()
    from aiocoap.transports import tcp
    from aiocoap.message import Message
    PAY = bytes(range(256)) * 2

    SC = [0, 1, 2, 69, 132, 160, 225, 226, 255]

    def h(li: int, ci: int, token: bytes, tlen: int, b0: int, with_opt: bool) -> None:
        assert 0 <= li < len(BODYLENS) and 0 <= ci < len(SC) and len(token) == 8 and 0 <= tlen <= 8 and 0 <= b0 < 256
        code = pick(SC, ci)
        blen = pick(BODYLENS, li)
        tl = pick(list(range(9)), tlen)
        tok = token[:tl]
        m = Message(code=code, _token=tok)
        optb = b""
        if with_opt:
            m.opt.uri_path = ["ab"]
            optb = b"\xb2ab"
        # body = options + marker + payload of total length blen (when blen allows)
        if blen > len(optb) + 1:
            pl = bytes([b0]) + PAY[:blen - len(optb) - 2]
            m.payload = pl
            body = optb + b"\xff" + pl
        else:
            body = optb
        wire = tcp._serialize(m)
        assert wire == ref_frame(code, tok, body)
        back = tcp._decode_message(wire)
        assert int(back.code) == code and back.token == tok and back.payload == m.payload and back.opt.encode() == optb
        sz = tcp._extract_message_size(wire)
        assert sum(sz) == len(wire)
        assert not reach, "reach"
    return h


def mk_serialize_code(reach):
    _setup()
    from aiocoap.transports import tcp
    from aiocoap.message import Message

    def h(code: int, tok: bytes) -> None:
        assert 0 <= code < 256 and len(tok) == 3
        m = Message(code=code, _token=tok, payload=b"pp")
        wire = tcp._serialize(m)
        assert wire == ref_frame(code, tok, b"\xffpp")
        back = tcp._decode_message(wire)
        assert int(back.code) == code and back.token == tok and back.payload == b"pp"
        assert not reach, "reach"
    return h


def streams():
    """catalogue streams: (name, frames)"""
    from aiocoap.transports import tcp
    from aiocoap.message import Message
    from aiocoap.numbers.codes import GET, CSM, CONTENT, PING, CHANGED
    m1 = Message(code=GET, uri_path=["a"])
    m1.token = b"\x01"
    m2 = Message(code=CONTENT, payload=b"x" * 11)
    m2.token = b"\x02\x03"                                  # body 12 -> nibble 12
    m3 = Message(code=CONTENT, payload=b"y" * 12)           # body 13 -> extended
    m4 = Message(code=PING)
    m4.token = b"\x07"
    m5 = Message(code=0)
    m6 = Message(code=CHANGED, payload=b"z" * 267)          # body 268
    m7 = Message(code=CHANGED, payload=b"w" * 268)          # body 269 -> 2-byte extension
    m7.token = b"\x09" * 8
    s1 = [Message(code=CSM), m1, m2, m3, m4, m5]
    s2 = [Message(code=CSM), m6, m7, m1]
    return {"short": b"".join(tcp._serialize(m) for m in s1), "long": b"".join(tcp._serialize(m) for m in s2)}


def run_conn(chunks, LOG):
    from aiocoap.transports import tcp
    pool, t = FakePool(), FakeStream()
    conn = tcp.TcpConnection(pool, LOG, None, is_server=True)
    conn.connection_made(t)
    for c in chunks:
        conn.data_received(c)
    return pool.events, t.written, t.closed, conn._spool


def mk_chunking(which, cuts, lo, hi, windows=False):
    def make(reach):
        LOG = _setup()
        STREAM = streams()[which]
        N = len(STREAM)
        POS = list(range(N + 1))
        if windows:
            # cut positions within +-3 bytes of every frame boundary (the stream is too long for all pairs)
            from aiocoap.transports import tcp
            bounds, off = [0], 0
            while off < N:
                off += sum(tcp._extract_message_size(STREAM[off:off + 8]))
                bounds.append(off)
            POS = sorted(set(p for b in bounds for p in range(b - 3, b + 4) if 0 <= p <= N))
        WHOLE = run_conn([STREAM], LOG)
        assert not WHOLE[2] and WHOLE[3] == b"" and len([e for e in WHOLE[0] if e[0] == "msg"]) >= 3

        NP = len(POS) - 1

        def h(i1: int, i2: int, i3: int) -> None:
            assert lo <= i1 < min(hi, NP + 1) and i1 <= i2 <= i3 <= NP and (cuts == 3 or i3 == NP)
            c1, c2, c3 = pick(POS, i1), pick(POS, i2), pick(POS, i3)
            parts = run_conn([STREAM[:c1], STREAM[c1:c2], STREAM[c2:c3], STREAM[c3:]], LOG)
            assert parts == WHOLE
            assert not reach, "reach"
        return h
    return make


def mk_bytewise(which):
    """down to single bytes: the whole stream fed one byte at a time, and k bytes at a time for symbolic k"""
    def make(reach):
        LOG = _setup()
        STREAM = streams()[which]
        N = len(STREAM)
        WHOLE = run_conn([STREAM], LOG)

        def h(k: int, off: int) -> None:
            assert 1 <= k <= 8 and 0 <= off < 8 and off < k
            kk = pick(list(range(9)), k)
            oo = pick(list(range(8)), off)
            chunks = [STREAM[:oo]] + [STREAM[i:i + kk] for i in range(oo, N, kk)]
            assert run_conn(chunks, LOG) == WHOLE
            assert not reach, "reach"
        return h
    return make


def mk_spool_step(ext):
    """one frame arriving in pieces after an incomplete header: exactly the announced bytes are consumed"""
    def make(reach):
        LOG = _setup()
        from aiocoap.transports import tcp
        from aiocoap.message import Message
        from aiocoap.numbers.codes import CSM
        CSMB = tcp._serialize(Message(code=CSM))
        EXTS = [0, 1, 27]

        def h(nib: int, tkl: int, ei: int, fill: bytes, cut: int) -> None:
            assert 0 <= nib <= (13 if ext else 12) and (not ext or nib == 13) and 0 <= tkl < 3 and 0 <= ei < (3 if ext else 1) and len(fill) == 56 and 0 <= cut < 4
            assert all(b == 0 for b in fill[9:])          # body bytes: zero-delta, zero-length options
            n = pick(list(range(14)), nib)
            t_ = pick([0, 3, 8], tkl)
            e = pick(EXTS, ei)
            c = pick([0, 1, 2, 4], cut)
            hdr = bytes([(n << 4) | t_]) + (bytes([e]) if n == 13 else b"")
            body_len = n if n < 13 else 13 + e
            total = len(hdr) + 1 + t_ + body_len
            frame = hdr + bytes([0x45]) + fill[:t_] + fill[9:9 + body_len]
            assert len(frame) == total
            nxt = b"\x01\x41"
            pool, t = FakePool(), FakeStream()
            conn = tcp.TcpConnection(pool, LOG, None, is_server=True)
            conn.connection_made(t)
            conn.data_received(CSMB)
            c = min(c, total - 1)
            conn.data_received(frame[:c])
            assert conn._spool == frame[:c] and pool.events == [] and not t.closed, "incomplete frame must stay spooled"
            conn.data_received(frame[c:] + nxt)
            assert not t.closed and conn._spool == nxt, "exactly the announced number of bytes is consumed"
            assert pool.events == [("msg", 0x45, fill[:t_], fill[9:9 + body_len], b"")]
            assert not reach, "reach"
        return h
    return make


def mk_rules(case):
  def make(reach):
    LOG = _setup()
    from aiocoap.transports import tcp
    from aiocoap.message import Message
    from aiocoap.numbers.codes import CSM, PING, PONG, RELEASE, ABORT, GET, CONTENT
    from aiocoap.optiontypes import OpaqueOption
    CSMB = tcp._serialize(Message(code=CSM))

    def conn_with(pre):
        pool, t = FakePool(), FakeStream()
        conn = tcp.TcpConnection(pool, LOG, None, is_server=True)
        conn.connection_made(t)
        n0 = len(t.written)
        for b in pre:
            conn.data_received(b)
        return pool, t, conn, n0

    def aborted(t, n0):
        new = t.written[n0:]
        return t.closed and not t.discarded and any(tcp._decode_message(w).code == ABORT for w in new)

    def h(csm_first: bool, x: int, tok: bytes, optnum: int, sigcode: int) -> None:
        assert 0 <= x < 2 ** 32 and len(tok) == 2 and 0 <= optnum < 64 and 0 <= sigcode <= 4
        cs = case
        pool, t, conn, n0 = conn_with([CSMB] if csm_first else [])
        if cs == 0:
            # request / response before the peer's CSM: nothing dispatched, Abort + close -- also when other signalling
            # messages (Ping / Pong) came first
            pre = pick([None, PING, PONG], sigcode % 3)
            if pre is not None:
                conn.data_received(tcp._serialize(Message(code=pre, _token=b"\x05")))
                n0 = len(t.written)
                assert not t.closed
            m = Message(code=pick([GET, CONTENT], x % 2), _token=tok)
            if x % 2 == 0:
                m.opt.uri_path = ["a"]
            conn.data_received(tcp._serialize(m))
            if csm_first:
                assert [e[0] for e in pool.events] == ["msg"] and not t.closed and len(t.written) == n0
            else:
                assert pool.events == [] and aborted(t, n0)
        elif cs == 1:
            # announced frame size above the local maximum (symbolic extended length, 4-byte form)
            limit = conn._my_max_message_size
            hdr = bytes([0xF0 | 2]) + x.to_bytes(4, "big") + bytes([0x01]) + tok
            total = 2 + 4 + 2 + x + 65805
            conn.data_received(hdr)
            if total > limit:
                assert pool.events == [] and aborted(t, n0)
            else:
                assert not t.closed and pool.events == []       # waits for the announced bytes
        elif cs == 2:
            # token length 9..15
            tkl = 9 + (x % 7)
            frame = bytes([tkl]) + bytes([0x01]) + bytes(tkl)
            conn.data_received(frame)
            assert pool.events == [] and aborted(t, n0)
        elif cs == 3:
            # unparsable option area (reserved length nibble / truncated option)
            body = bytes([0x0F]) if x % 2 else bytes([0x15, 0x41])
            conn.data_received(ref_frame(0x01, tok, body))
            assert pool.events == [] and aborted(t, n0)
        elif cs == 4:
            # option in a signalling message: critical unknown -> Abort + close, elective -> ignored
            if optnum >= 20 or not csm_first:
                return                      # numbers 0..19 cover known (2, 4), unknown critical and unknown elective
            code = pick([CSM, PING, PONG, RELEASE, ABORT], sigcode)
            known = code == CSM and optnum in (2, 4)
            m = Message(code=code, _token=tok)
            m.opt.add_option(OpaqueOption(optnum, b"\x01"))
            conn.data_received(tcp._serialize(m))
            if optnum % 2 == 1 and not known:
                assert aborted(t, n0)
            elif code in (RELEASE, ABORT):
                assert t.closed and [e[0] for e in pool.events] == ["err"]
            else:
                assert not t.closed and pool.events == []
                if code == PING:
                    assert len(t.written) == n0 + 1
        elif cs == 5:
            # Ping -> Pong with the same token
            conn.data_received(tcp._serialize(Message(code=PING, _token=tok)))
            assert len(t.written) == n0 + 1 and not t.closed
            pong = tcp._decode_message(t.written[-1])
            assert pong.code == PONG and pong.token == tok and pool.events == []
        elif cs == 6:
            # empty message (code 0.00): ignored -- no dispatch, nothing written, connection stays
            if not csm_first:
                return
            conn.data_received(ref_frame(0, tok, b""))
            assert pool.events == [] and len(t.written) == n0 and not t.closed
        else:
            # unknown signalling code 7.06..7.31
            sc = 0xE6 + (x % 26)
            conn.data_received(ref_frame(sc, tok, b""))
            assert pool.events == [] and aborted(t, n0)
        assert not reach, "reach"
    return h
  return make


def mk_client_rules(reach):
    """Release / Abort / connection loss fail the pending requests with a network error; empty messages are ignored
    (real TCPClient pool + real TokenManager + real Context.request)"""
    LOG = _setup()
    from vf.simloop import SimLoop
    from aiocoap.transports import tcp
    from aiocoap.protocol import Context
    from aiocoap.tokenmanager import TokenManager
    from aiocoap.message import Message
    from aiocoap.numbers.codes import CSM, RELEASE, ABORT, GET, CONTENT
    from aiocoap import error
    import aiocoap.tokenmanager as tmod

    class R:
        def randint(self, a, b):
            return 7
    tmod.random = R()
    CSMB = tcp._serialize(Message(code=CSM))

    def h(ev: int, nreq: int, empty_first: bool, in_pool: bool) -> None:
        assert 0 <= ev <= 3 and 1 <= nreq <= 2
        e = pick([0, 1, 2, 3], ev)
        with SimLoop() as loop:
            ctx = Context(loop=loop, loggername="vf-null")
            client = tcp.TCPClient()
            tman = TokenManager(ctx)
            client._tokenmanager = tman
            client.log = LOG
            client.loop = loop
            tman.token_interface = client
            ctx.request_interfaces.append(tman)
            conn = tcp.TcpConnection(client, LOG, loop, is_server=False)
            if in_pool:
                client._pool[("h", 5683)] = conn
            else:
                # a connection that carries requests but was superseded in the pool (two concurrent first requests to one host)
                other = tcp.TcpConnection(client, LOG, loop, is_server=False)
                client._pool[("h", 5683)] = other
            t = FakeStream()
            conn.connection_made(t)
            conn.data_received(CSMB)
            reqs = []
            for i in range(nreq):
                m = Message(code=GET, uri_path=["r%d" % i])
                m.remote = conn
                reqs.append(ctx.request(m, handle_blockwise=False))
            loop.run_ready()
            n0 = len(t.written)
            assert n0 == 1 + nreq
            toks = [tcp._decode_message(w).token for w in t.written[1:]]
            assert len(set(toks)) == nreq
            if empty_first:
                conn.data_received(ref_frame(0, toks[0], b""))
                loop.run_ready()
                assert len(t.written) == n0 and not t.closed and not any(r.response.done() for r in reqs), "empty message must be ignored"
            if e == 0:
                conn.data_received(tcp._serialize(Message(code=RELEASE)))
            elif e == 1:
                conn.data_received(tcp._serialize(Message(code=ABORT, payload=b"bye")))
            elif e == 2:
                conn.connection_lost(ConnectionResetError("reset"))
            else:
                # a response for the first request, then Release
                conn.data_received(tcp._serialize(Message(code=CONTENT, payload=b"ok", _token=toks[0])))
                conn.data_received(tcp._serialize(Message(code=RELEASE)))
            loop.run_ready()
            for i, r in enumerate(reqs):
                assert r.response.done()
                if e == 3 and i == 0:
                    assert r.response.result().payload == b"ok"
                else:
                    exc = r.response.exception()
                    assert isinstance(exc, error.NetworkError) and isinstance(exc, error.Error)
            if e in (0, 1, 3):
                assert t.closed
            assert loop.exceptions == []
        assert not reach, "reach"
    return h


def obligations(tier):
    q = tier == "quick"
    T = 200 if q else 900
    F = ["tcp._extract_message_size", "tcp._encode_length", "tcp._serialize", "tcp._decode_message"]
    FC = ["tcp.TcpConnection.data_received/_abort_with/connection_made", "rfc8323common.RFC8323Remote._process_signaling/abort/_send_initial_csm"]
    obs = [Obligation("encode-length", mk_encode_length, T, functions=F, symbolic={"length": "[0, 2^32+65805)", "tkl": "0..15"}),
           Obligation("serialize-roundtrip", mk_serialize, 280 if q else 1200, functions=F,
                      symbolic={"body length": "index over %s" % BODYLENS, "code": "index/9", "token": "8 symbolic bytes, length by index 0..8",
                                "first payload byte": "0..255", "Uri-Path option present": "bool"})]
    for L in range(6):
        obs.append(Obligation("extract-size-L%d" % L, mk_extract(L), T, functions=F[:1], symbolic={"header": "%d bytes" % L, "following": "2 bytes"}))
    obs.append(Obligation("serialize-code", mk_serialize_code, T, functions=F, symbolic={"code": "0..255", "token": "3 bytes"}))
    for ext in (False, True):
        obs.append(Obligation("spool-step-%s" % ("ext" if ext else "short"), mk_spool_step(ext), 280 if q else 1200, functions=FC[:1] + F,
                              symbolic={"Len nibble": "index 0..13", "TKL": "index {0,3,8}", "extension byte": "index {0,1,27}", "token content": "symbolic bytes",
                                        "first chunk length": "index {0,1,2,4}"}))
    # chunkings: first cut split over workers
    for which, n in (("short", 44), ("long", 559)):
        if which == "long":
            # long stream: cuts only around the frame boundaries (windows), by index over the whole range would be too many
            continue
        step = 8 if q else 4
        for lo in range(0, n + 1, step):
            obs.append(Obligation("chunking-%s-2cut-%02d" % (which, lo), mk_chunking(which, 2, lo, min(lo + step, n + 1)), 280 if q else 1500,
                                  functions=FC[:1] + F, symbolic={"first cut": "index %d..%d" % (lo, min(lo + step, n + 1) - 1), "second cut": "index >= first"},
                                  concrete={"stream": "CSM, GET, 2.05 (body 12), 2.05 (body 13), Ping, empty"}))
    for lo in range(0, 22, 11):
        obs.append(Obligation("chunking-long-windows-2cut-%02d" % lo, mk_chunking("long", 2, lo, lo + 11, windows=True), 280 if q else 1500,
                              functions=FC[:1] + F, symbolic={"two cut positions": "indices over positions within 3 bytes of each frame boundary"},
                              concrete={"stream": "CSM, 2.04 (body 268), 2.04 (body 269, 8-byte token), GET"}))
    if not q:
        for lo in range(0, 45, 5):
            obs.append(Obligation("chunking-short-3cut-%02d" % lo, mk_chunking("short", 3, lo, lo + 5), 1500, functions=FC[:1] + F,
                                  symbolic={"three cut positions": "indices 0..44, ordered"}, concrete={"stream": "short catalogue stream"}))
    for which in ("short", "long"):
        obs.append(Obligation("bytewise-%s" % which, mk_bytewise(which), 280 if q else 900, functions=FC[:1] + F,
                              symbolic={"chunk size": "1..8", "offset of first chunk": "0..7"}, concrete={"stream": which}))
    CASES = ["before-csm", "oversize", "tkl-9-15", "unparsable", "critical-option", "ping-pong", "empty-ignored", "unknown-signalling"]
    for ci, cn in enumerate(CASES):
        obs.append(Obligation("rule-%s" % cn, mk_rules(ci), 280 if q else 1500, functions=FC + F, concrete={"rule": cn},
                          symbolic={"CSM received first": "bool", "extended length / selector": "[0,2^32)", "token": "2 bytes",
                                    "option number": "0..63", "signalling code": "index/5"}))
    obs.append(Obligation("client-release-abort", mk_client_rules, 280 if q else 900,
                          functions=FC + ["tcp._TCPPooling._dispatch_incoming/_dispatch_error/send_message", "TokenManager.request/dispatch_error/process_response",
                                          "Context.request"],
                          symbolic={"event": "Release / Abort / connection lost / response then Release", "pending requests": "1..2", "empty message first": "bool",
                                    "connection still in the client's pool": "bool"}))
    return obs
