"""C06 -- block-wise server: handlers see only complete bodies, blocks are exact slices."""
from vf.api import Obligation, pick

META = {
    "explanation": "The real Resource.render_to_pipe (Block1Spool, Block2Cache, TimeoutDict, Message._append_request_block/"
    "_extract_block, error_to_message) is driven with sequences of block requests whose (endpoint, method/query key, NUM, M, "
    "payload-length class) are chosen by symbolic index, from real UDP6EndpointAddress endpoints (same address / different port "
    "included); a reference reassembly model per (endpoint, method, cache key) written from RFC 7959 and the statement predicts "
    "every response code, the echoed Block1 option and exactly which bodies reach the handler. Block2: body length, NUM and "
    "endpoint by index; payload must be the exact slice of the latest block-0 rendering. State lifetime: idle time before a "
    "continuation is a solver variable compared with MAX_TRANSMIT_WAIT and twice that.",
    "trusted_base": ["vf.simloop.SimLoop", "reference reassembly model in the harness", "integer tuning (MAX_TRANSMIT_WAIT = 14000 ticks)"],
    "assumptions": [
        "size exponents 0 and 2 (16 / 64 byte blocks), NUM 0..3, up to 4 (5) block requests per run, 2 endpoints x 2 keys",
        "a first block (NUM 0) with M set and a payload length other than the block size may be answered 2.31 or 4.00 (statement covers continuations)",
    ],
}

FUNCS = ["interfaces.Resource._render_to_pipe", "blockwise.Block1Spool.feed_and_take", "blockwise.Block2Cache.extract_or_insert", "blockwise._extract_block_key",
         "message.Message._append_request_block/_extract_block/get_cache_key", "util.asyncio.timeoutdict.TimeoutDict", "pipe.error_to_message",
         "UDP6EndpointAddress.blockwise_key"]


def _kit():
    import logging
    from vf import stack
    from vf.simloop import SimLoop
    from aiocoap.message import Message, Direction
    from aiocoap.pipe import Pipe, run_driving_pipe, error_to_message
    from aiocoap import resource
    from aiocoap.transports import udp6
    stack.configure(ack_timeout=2000, ack_random_factor=1, max_retransmit=2)
    LOG = logging.getLogger("vf-null")

    class FakeIf:
        pass
    IFACE = FakeIf()

    def remote(sockaddr):
        return udp6.UDP6EndpointAddress(sockaddr, IFACE, pktinfo=stack.pktinfo(False))

    def serve(loop, res, req):
        """feed one request through the real render_to_pipe + error_to_message, return the single response"""
        req.direction = Direction.INCOMING
        pipe = Pipe(req, LOG)
        out = []
        pipe.on_event(lambda ev: (out.append(ev), True)[1])
        run_driving_pipe(error_to_message(pipe, LOG), res.render_to_pipe(pipe))
        loop.run_ready()
        assert len(out) == 1 and out[0].message is not None and out[0].is_last, "exactly one response per block request"
        return out[0].message
    return SimLoop, Message, resource, remote, serve, stack


def mk_block1(szx, nsteps, pa_fixed=None, two=None):
    """inductive step: pre-state = per (endpoint, key) an assembly of 0 / 1 / 2 blocks or none, built through the real API;
    then `nsteps` block requests with symbolic (selector, NUM, M / length class); model and real spool compared after each"""
    def make(reach):
        SimLoop, Message, resource, remote, serve, stack = _kit()
        from aiocoap.blockwise import _extract_block_key
        from aiocoap.numbers.codes import PUT, POST, CHANGED, CONTINUE, REQUEST_ENTITY_INCOMPLETE, BAD_REQUEST
        SIZE = 2 ** (szx + 4)
        PAT = bytes((i * 7 + 3) % 251 for i in range(1200))
        EPS = [stack.R0, stack.R1]         # same address, different port
        SEL = [(0, 0), (1, 0), (0, 1)]     # (endpoint, key): the pre-state's first assembly, other endpoint, other method+query
        MLEN = [(True, SIZE), (True, SIZE + 1), (True, SIZE - 1), (False, SIZE - 1), (False, 0), (False, SIZE + 1), (False, SIZE), (True, 0), (True, 2 * SIZE)]
        PRE = [None, 1, 2]                 # blocks already assembled

        class Rec(resource.Resource):
            def __init__(self):
                super().__init__()
                self.bodies = []

            async def render_put(self, request):
                self.bodies.append((request.remote.sockaddr[:2], "PUT", tuple(request.opt.uri_query), bytes(request.payload)))
                return Message(code=CHANGED)

            async def render_post(self, request):
                self.bodies.append((request.remote.sockaddr[:2], "POST", tuple(request.opt.uri_query), bytes(request.payload)))
                return Message(code=CHANGED)

        def h(pa: int, pb: int, pc: int, s1: int, n1: int, k1: int, s2: int, n2: int, k2: int) -> None:
            assert 0 <= pa < 3 and (pa_fixed is None or pa == pa_fixed) and 0 <= pb < 3 and 0 <= pc < 3 and 0 <= s1 < 3 and 0 <= n1 < 4 and 0 <= k1 < len(MLEN)
            assert 0 <= s2 < 3 and 0 <= n2 < 4 and 0 <= k2 < len(MLEN)
            # two-step form: from the empty spool, first request for a fixed selector with NUM 0 or 1 (higher numbers are
            # rejected from an empty spool like 1)
            assert two is None or (pa == 0 and pb == 0 and pc == 0 and s1 == two and n1 < 2)
            with SimLoop() as loop:
                res = Rec()
                model = {}
                expected_bodies = []
                off = [0]

                def mkreq(sel, num, m, L):
                    ep = pick(EPS, sel[0])
                    pl = PAT[off[0]:off[0] + L]
                    off[0] += L
                    req = Message(code=PUT if sel[1] == 0 else POST, payload=pl, block1=(num, m, szx), uri_query=["k=1"] if sel[1] else [])
                    req.remote = remote(ep)
                    return req, ep, pl

                def step(sel, num, m, L):
                    req, ep, pl = mkreq(sel, num, m, L)
                    resp = serve(loop, res, req)
                    key = (ep[:2], sel[1])
                    asm = model.get(key)
                    name = ("PUT" if sel[1] == 0 else "POST", ("k=1",) if sel[1] else ())
                    assert resp.code.class_ != 5, "block handling must never yield 5.xx"
                    if num == 0:
                        if m and L != SIZE:
                            assert resp.code in (CONTINUE, BAD_REQUEST)
                            if resp.code == CONTINUE:
                                model[key] = pl
                        else:
                            model[key] = pl
                            assert resp.code == (CONTINUE if m else CHANGED)
                            if not m:
                                expected_bodies.append((ep[:2], name[0], name[1], pl))
                    else:
                        if asm is None:
                            assert resp.code == REQUEST_ENTITY_INCOMPLETE, "continuation of an unknown transfer -> 4.08"
                        elif m and L != SIZE:
                            assert resp.code == BAD_REQUEST, "payload length contradicts block size -> 4.00"
                        elif num * SIZE != len(asm):
                            assert resp.code == REQUEST_ENTITY_INCOMPLETE, "gap / overlap -> 4.08"
                        else:
                            model[key] = asm + pl
                            assert resp.code == (CONTINUE if m else CHANGED)
                            if not m:
                                expected_bodies.append((ep[:2], name[0], name[1], asm + pl))
                    if resp.code == CONTINUE:
                        b = resp.opt.block1
                        assert b is not None and (b.block_number, bool(b.more), b.size_exponent) == (num, True, szx), "2.31 echoes the block option"
                    assert res.bodies == expected_bodies, "handler sees only complete in-order bodies of one endpoint / method / key"
                    # the real spool and the model agree (representation check that makes the step inductive)
                    for sl in SEL:
                        probe, pep, _ = mkreq(sl, 0, True, 0)
                        items = res._block1._assemblies._items
                        k = _extract_block_key(probe)
                        want = model.get((pep[:2], sl[1]))
                        assert (k in items) == (want is not None)
                        if want is not None:
                            assert bytes(items[k].payload) == want

                # pre-state through the real API (valid blocks only)
                for sl, pre in zip(SEL, (pick(PRE, pa), pick(PRE, pb), pick(PRE, pc))):
                    if pre is not None:
                        for i in range(pre):
                            step(sl, i, True, SIZE)
                step(pick(SEL, s1), pick([0, 1, 2, 3], n1), *pick(MLEN, k1))
                if nsteps > 1:
                    step(pick(SEL, s2), pick([0, 1, 2, 3], n2), *pick(MLEN, k2))
                assert loop.exceptions == []
            assert not reach, "reach"
        return h
    return make


def mk_block2(szx, bi):
    def make(reach):
        SimLoop, Message, resource, remote, serve, stack = _kit()
        from aiocoap.numbers.codes import GET, CONTENT, REQUEST_ENTITY_INCOMPLETE, BAD_REQUEST
        SIZE = 2 ** (szx + 4)
        BODYLENS = [0, 1, SIZE - 1, SIZE, SIZE + 1, 2 * SIZE, 2 * SIZE + 5, 3 * SIZE + 1]
        L = BODYLENS[bi]
        EPS = [stack.R0, stack.R1]

        class Big(resource.Resource):
            def __init__(self, L):
                super().__init__()
                self.L = L
                self.renders = 0

            async def render_get(self, request):
                self.renders += 1
                return Message(payload=bytes((self.renders * 40 + i) % 256 for i in range(self.L)))

        def h(e1: int, n1: int, e2: int, n2: int, e3: int, n3: int, plain_first: bool) -> None:
            assert all(0 <= x < 2 for x in (e1, e2, e3)) and all(0 <= x < 5 for x in (n1, n2, n3))
            with SimLoop() as loop:
                res = Big(L)
                latest = {}
                renders = 0
                first = True
                for (e, n) in ((e1, n1), (e2, n2), (e3, n3)):
                    ep = pick(EPS, e)
                    num = pick([0, 1, 2, 3, 4], n)
                    req = Message(code=GET)
                    if not (first and plain_first):
                        req.opt.block2 = (num, False, szx)
                    else:
                        num = 0
                    first = False
                    req.remote = remote(ep)
                    resp = serve(loop, res, req)
                    assert resp.code.class_ != 5
                    if num == 0:
                        renders += 1
                        body = bytes((renders * 40 + i) % 256 for i in range(L))
                        if req.opt.block2 is None:
                            # no Block2 in the request: body fits (all lengths here are below the 1024-byte default)
                            assert resp.code == CONTENT and resp.payload == body and resp.opt.block2 is None
                            continue
                        if L > SIZE:
                            latest[ep[:2]] = body
                        assert resp.code == CONTENT
                        if L > SIZE:
                            assert resp.payload == body[:SIZE]
                            b = resp.opt.block2
                            assert (b.block_number, bool(b.more), b.size_exponent) == (0, True, szx)
                        else:
                            assert resp.payload == body
                            if resp.opt.block2 is not None:
                                assert not resp.opt.block2.more
                    else:
                        body = latest.get(ep[:2])
                        if body is None:
                            assert resp.code == REQUEST_ENTITY_INCOMPLETE, "later block without a rendering for this endpoint -> 4.08"
                        elif num * SIZE >= len(body):
                            assert resp.code == BAD_REQUEST, "block beyond the end -> 4.00"
                        else:
                            assert resp.code == CONTENT
                            assert resp.payload == body[num * SIZE:(num + 1) * SIZE], "exact slice of the latest block-0 rendering"
                            b = resp.opt.block2
                            assert (b.block_number, bool(b.more), b.size_exponent) == (num, (num + 1) * SIZE < len(body), szx)
                    assert res.renders == renders, "one rendering per block-0 request, none for later blocks"
                assert loop.exceptions == []
            assert not reach, "reach"
        return h
    return make


def mk_lifetime(which):
    """reassembly / rendering state survives MAX_TRANSMIT_WAIT after its last use and is gone after twice that"""
    def make(reach):
        SimLoop, Message, resource, remote, serve, stack = _kit()
        from aiocoap.numbers.codes import GET, PUT, CHANGED, CONTENT, CONTINUE, REQUEST_ENTITY_INCOMPLETE
        from aiocoap.numbers.constants import TransportTuning
        MTW = TransportTuning().MAX_TRANSMIT_WAIT
        assert MTW == 14000

        class R(resource.Resource):
            def __init__(self):
                super().__init__()
                self.bodies = []

            async def render_get(self, request):
                return Message(payload=bytes(range(100)))

            async def render_put(self, request):
                self.bodies.append(bytes(request.payload))
                return Message(code=CHANGED)

        def h(d0: int, d1: int, d2: int, prior_cycle: bool) -> None:
            assert 0 <= d0 <= 3 * MTW and 0 <= d1 <= 3 * MTW and 0 <= d2 <= 3 * MTW
            with SimLoop() as loop:
                res = R()
                other = R()
                ep = remote(stack.R0)
                if prior_cycle:
                    # an earlier transfer that has been idle long enough for the table to drain completely once
                    m0 = Message(code=PUT, payload=b"x" * 16, block1=(0, True, 0)) if which == "block1" else Message(code=GET, block2=(0, False, 0))
                    m0.remote = remote(stack.R1)
                    serve(loop, res, m0)
                    loop.advance(3 * MTW)

                def req(num, more=True):
                    if which == "block1":
                        m = Message(code=PUT, payload=bytes([num]) * 16 if more else b"end", block1=(num, more, 0))
                    else:
                        m = Message(code=GET, block2=(num, False, 0))
                    m.remote = ep
                    return serve(loop, res, m)
                # an unrelated user of the same kind of state keeps the resource's timer phase arbitrary
                loop.advance(d0)
                r0 = req(0)
                assert r0.code == (CONTINUE if which == "block1" else CONTENT)
                last_use = loop.time()
                loop.advance(d1)
                r1 = req(1)
                idle = loop.time() - last_use
                if idle < MTW:
                    assert r1.code == (CONTINUE if which == "block1" else CONTENT), "state must survive MAX_TRANSMIT_WAIT after its last use"
                if idle >= 2 * MTW:
                    assert r1.code == REQUEST_ENTITY_INCOMPLETE, "state must be discarded within twice MAX_TRANSMIT_WAIT"
                if r1.code != REQUEST_ENTITY_INCOMPLETE:
                    last_use = loop.time()
                    loop.advance(d2)
                    r2 = req(2)
                    idle = loop.time() - last_use
                    if idle < MTW:
                        assert r2.code == (CONTINUE if which == "block1" else CONTENT)
                    if idle >= 2 * MTW:
                        assert r2.code == REQUEST_ENTITY_INCOMPLETE
                assert loop.exceptions == []
            assert not reach, "reach"
        return h
    return make


def obligations(tier):
    q = tier == "quick"
    obs = []
    for szx in (0, 2):
        for pa in (0, 1, 2):
            if q and szx == 2 and pa != 1:
                continue
            obs.append(Obligation("block1-step-szx%d-pre%d" % (szx, pa), mk_block1(szx, 1, pa), 280 if q else 900, functions=FUNCS,
                                  symbolic={"pre-state": "2 further assemblies x {none, 1 block, 2 blocks}", "request": "selector/3 x NUM 0..3 x 9 (M, length) classes incl. empty and double-size non-final blocks"},
                                  concrete={"size exponent": szx, "first assembly in the pre-state": ["none", "1 block", "2 blocks"][pa]},
                                  stubs=["SimLoop", "pipe-level driver (render_to_pipe + error_to_message)"]))
        if not q:
            for sel in (0, 1, 2):
                obs.append(Obligation("block1-twosteps-szx%d-sel%d" % (szx, sel), mk_block1(szx, 2, two=sel), 1500, functions=FUNCS,
                                      symbolic={"first request": "NUM 0..1 x 9 (M, length) classes", "second request": "selector/3 x NUM 0..3 x 9 classes"},
                                      concrete={"size exponent": szx, "pre-state": "empty spool", "selector of the first request": sel},
                                      note="cross-check of the inductive step on explicit two-request sequences (the full 27 x 84 x 84 product did not finish in 3000 s)"))
        for bi in (range(8) if not q else ([4, 5, 7] if szx == 0 else [5, 6])):   # 5: body ends exactly on a block boundary
            obs.append(Obligation("block2-szx%d-len%d" % (szx, bi), mk_block2(szx, bi), 280 if q else 1500, functions=FUNCS,
                                  symbolic={"3 requests": "endpoint index x NUM 0..4", "first request without Block2": "bool"},
                                  concrete={"size exponent": szx, "body length index": bi}))
    for which in ("block1", "block2"):
        obs.append(Obligation("state-lifetime-%s" % which, mk_lifetime(which), 280 if q else 1200, functions=FUNCS,
                              symbolic={"idle times before the first use and before each continuation": "3 x [0, 3*MAX_TRANSMIT_WAIT]",
                                        "an earlier transfer drained the table once": "bool"},
                              concrete={"MAX_TRANSMIT_WAIT": "14000 ticks (ACK_TIMEOUT 2000, factor 1, MAX_RETRANSMIT 2)"}))
    return obs
