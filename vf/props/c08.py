"""C08 -- observe server: rising numbers, latest state sent, cancellation final, no leak."""
from vf.api import Obligation, pick

META = {
    "explanation": "Stack S as server with a real ObservableResource (optionally with a render that suspends after sampling its "
    "state): a registration (CON or NON request) is followed by event sequences chosen by symbolic index over state change, "
    "ACK / Reset for the open notification, retransmission timer (up to give-up), re-registration / plain GET / deregistering GET "
    "on the same token, transport error, unsuccessful notification, passage of time, context shutdown. A monitor written from "
    "the statement tracks which registration is live, checks token and strictly increasing Observe values per registration, "
    "exactly one cancellation callback per ended registration, no new notification after the end, the observer count, and "
    "(after quiescing: all notifications acknowledged, renders finished) that the last notification carries the latest state.",
    "trusted_base": ["vf.stack (fake datagram transport, integer tuning)", "vf.simloop.SimLoop", "registration monitor in the harness"],
    "assumptions": [
        "one observer endpoint (a second observer appears as the neighbour in the dedicated obligation); 3 (quick) / 4 (thorough) events",
        "a Reset is only generated for a notification that is still unacknowledged (CON) -- a peer does not both ACK and Reset",
        "known finding D7: Reset for a non-confirmable notification is not matched (separate companion obligation)",
    ],
}

FUNCS = ["interfaces.ObservableResource._render_to_pipe", "resource.ObservableResource.add_observation/updated_state", "protocol.ServerObservation.trigger/accept",
         "TokenManager.process_request/dispatch_error/shutdown", "MessageManager.send_message/_remove_exchange/_retransmit/dispatch_error",
         "pipe.run_driving_pipe/Pipe"]

EV = ["change", "ack", "rst", "timer", "rereg", "plainget", "error", "unsuccessful", "wait", "dereg", "shutdown", "last", "last+change"]


def mk_obs(first, depth, slow, reg_con, allow_rst=True, two_observers=False, d20="exclude", only=None):
    def make(reach):
        import asyncio
        from vf import stack
        from vf.simloop import SimLoop
        from aiocoap.message import Message
        from aiocoap import resource
        from aiocoap.numbers.types import CON, NON, ACK, RST
        from aiocoap.numbers.codes import GET, EMPTY, NOT_FOUND, CONTENT
        stack.configure(ack_timeout=2000, ack_random_factor=1, max_retransmit=1)

        class Obs(resource.ObservableResource):
            def __init__(self):
                super().__init__()
                self.state = 0
                self.counts = []
                self.regs = []        # per registration: [cancel_calls]

            async def add_observation(self, request, serverobservation):
                await super().add_observation(request, serverobservation)
                rec = [0]
                self.regs.append(rec)
                inner = serverobservation._cancellation_callback

                def counted():
                    rec[0] += 1
                    inner()
                serverobservation._cancellation_callback = counted

            def update_observation_count(self, n):
                self.counts.append(n)

            async def render_get(self, request):
                s = self.state
                if slow:
                    await asyncio.sleep(5)
                return Message(payload=b"s%d" % s)

        def h(e2: int, e3: int, e4: int) -> None:
            assert 0 <= e2 < len(EV) and 0 <= e3 < len(EV) and 0 <= e4 < len(EV)
            assert only is None or (e2 == only[0] and EV[e3] in only[1])
            evs = [first, e2, e3, e4][:depth]
            with SimLoop() as loop:
                res = Obs()
                site = resource.Site()
                site.add_resource(["o"], res)
                S = stack.StackS(loop, site)
                src = stack.R0
                mids = [500]
                TOK = b"\x09"

                def get(observe, source=src, token=TOK):
                    mids[0] += 1
                    m = Message(code=GET, _mtype=CON if reg_con else NON, _mid=mids[0], _token=token, uri_path=["o"])
                    if observe is not None:
                        m.opt.observe = observe
                    S.deliver(m.encode(), source)

                def mine():
                    """distinct datagrams sent to the observer, in order of first transmission"""
                    seen, out = [], []
                    for (d, a, t) in S.tr.sent:
                        if a[:2] == src[:2] and d not in seen:
                            seen.append(d)
                            out.append(Message.decode(d))
                    return out

                def notifs():
                    return [o for o in mine() if o.opt.observe is not None and o.token == TOK]

                def active():
                    return [k for k in S.mman._active_exchanges if k[0].sockaddr[:2] == src[:2]]

                def queued():
                    """notifications for the observer's token waiting in the NSTART backlog (handed over, not yet transmitted)"""
                    out = []
                    for rem, lst in S.mman._backlogs.items():
                        if rem.sockaddr[:2] == src[:2]:
                            out += [m for (m, mon) in lst if m.token == TOK and m.opt.observe is not None]
                    return out

                def wire():
                    """distinct datagrams for the observer's token in order of first transmission: (observe, state or None, code)"""
                    out = []
                    for o in mine():
                        if o.token == TOK and int(o.code) != 0:
                            st = int(o.payload[1:]) if o.payload[:1] == b"s" and o.payload[1:].isdigit() else None
                            out.append((o.opt.observe, st, int(o.code)))
                    return out

                if two_observers:
                    get(0, stack.R2, b"\x0a")
                    loop.advance(10)
                get(0)
                loop.advance(10)            # first render completes (also the slow one)
                base = 1 if two_observers else 0
                assert len(res.regs) == 1 + base and res.counts[-1] == 1 + base
                reg = base                  # index of the live registration (None when ended)
                ended_marks = []            # (registration index, number of notifications at its end)
                down = False

                def end(i, final_allowed=0):
                    ended_marks.append((i, len(notifs()), final_allowed))

                notif_reg = {}              # MID of a notification -> registration it was sent for

                def attribute():
                    for o in notifs():
                        if o.mid not in notif_reg:
                            notif_reg[o.mid] = reg
                attribute()

                quiet_from = None           # index into wire() from which on nothing of an ended registration may appear
                for e in evs:
                    if down:
                        break
                    ev = pick(EV, e)
                    w_before = len(wire())
                    reg_before = reg
                    if d20 == "exclude" and ev in ("rst", "rereg", "plainget", "dereg") and queued() and (ev != "rst" or allow_rst):
                        # known finding D20: a Reset or a new request on the token arrives while notifications of the registration it
                        # ends (or of one whose final message is itself still queued) wait in the NSTART backlog -- they are still
                        # transmitted afterwards.  Companion obligations
                        # observe-backlog-after-end-* keep that class covered; the histories are left out here.
                        return
                    if ev == "change":
                        res.state += 1
                        res.updated_state()
                        loop.run_ready()
                    elif ev == "ack":
                        act = active()
                        if act:
                            S.deliver(Message(code=EMPTY, _mtype=ACK, _mid=act[0][1]).encode(), src)
                    elif ev == "rst":
                        if not allow_rst:
                            continue
                        act = active()
                        ns = notifs()
                        if reg_con:
                            if not act:
                                continue
                            mid = act[0][1]
                            # only if the open exchange is a notification (not e.g. a separate plain response)
                            if not any(o.mid == mid and o.opt.observe != 0 for o in ns):
                                continue
                        else:
                            if reg is None or len(ns) < 2 or ns[-1].opt.observe == 0:
                                continue
                            mid = ns[-1].mid
                        S.deliver(Message(code=EMPTY, _mtype=RST, _mid=mid).encode(), src)
                        target = notif_reg.get(mid)
                        if target is not None and target == reg:
                            end(reg)
                            reg = None
                    elif ev == "timer":
                        # the retransmission timer of the observer's open exchange (not the neighbour's, who always answers)
                        act = active()
                        mine_h = [v[1] for k2, v in S.mman._active_exchanges.items() if k2 in act]
                        ts = [hn for hn in loop.pending_timers() if getattr(hn._callback, "__name__", "") == "retr" and hn in mine_h]
                        if not ts:
                            continue
                        loop.fire(loop._earliest(ts))
                        if act and not active() and reg is not None:
                            end(reg)       # confirmable notification timed out
                            reg = None
                    elif ev == "rereg":
                        if reg is not None:
                            end(reg)
                        get(0)
                        loop.advance(10)
                        reg = len(res.regs) - 1
                    elif ev in ("plainget", "dereg"):
                        if reg is not None:
                            end(reg)
                            reg = None
                        get(None if ev == "plainget" else 1)
                        loop.advance(10)
                    elif ev == "error":
                        S.icmp_error(src)
                        if reg is not None:
                            end(reg)
                            reg = None
                    elif ev == "unsuccessful":
                        if two_observers:
                            continue            # would end both observers; the single-observer obligations cover it
                        res.updated_state(Message(code=NOT_FOUND, payload=b"gone"))
                        loop.run_ready()
                        loop.advance(10)
                        if reg is not None:
                            end(reg, final_allowed=1)
                            reg = None
                    elif ev in ("last", "last+change"):
                        # the resource marks its next notification to this observer as the last one (and, in the same tick,
                        # also announces a state change)
                        if two_observers:
                            continue
                        for o in list(res._observations):
                            o.trigger(Message(payload=b"bye"), is_last=True)
                        if ev == "last+change":
                            res.state += 1
                            res.updated_state()
                        loop.run_ready()
                        loop.advance(10)
                        if reg is not None:
                            end(reg, final_allowed=1)
                            reg = None
                    elif ev == "wait":
                        loop.advance(7)
                    else:
                        t = S.shutdown()
                        loop.advance(10)
                        assert t.done() and t.exception() is None
                        if reg is not None:
                            end(reg)
                            reg = None
                        down = True
                    if two_observers and not down:
                        # the neighbour acknowledges whatever it is sent, at once
                        for k2 in [k2 for k2 in S.mman._active_exchanges if k2[0].sockaddr[:2] == stack.R2[:2]]:
                            S.deliver(Message(code=EMPTY, _mtype=ACK, _mid=k2[1]).encode(), stack.R2)
                    # ---- invariants after every event
                    attribute()
                    w = wire()
                    # (b) within a registration (from its Observe 0 response on) the notified states never go backwards
                    run_states = []
                    for (ob, st, cd) in w:
                        if ob == 0:
                            run_states = []
                        if ob is not None and st is not None:
                            assert not run_states or st >= run_states[-1], "an older state notified after a newer one within a registration"
                            run_states.append(st)
                    # (a) once a registration has ended no further notification of it reaches the wire: until a new registration
                    # starts (Observe 0 response) nothing with an Observe option follows; 'last' / 'unsuccessful' end with their
                    # final message, which itself comes after everything handed over earlier
                    if reg_before is not None and reg is None and ev in ("rst", "plainget", "dereg", "error", "timer", "shutdown") and quiet_from is None:
                        quiet_from = w_before           # whatever the ending event itself still puts on the wire counts
                    if reg is not None:
                        quiet_from = None
                    if quiet_from is not None:
                        assert all(ob is None for (ob, st, cd) in w[quiet_from:]), "notification transmitted for a registration that has ended"
                    ns = notifs()
                    assert all(o.token == TOK for o in ns)
                    # notifications after the registration response are separate messages: confirmable / non-confirmable like the
                    # registration, never an ACK, and under fresh message IDs
                    for o in ns:
                            if o.opt.observe != 0:
                                assert o.mtype == (CON if reg_con else NON) and not (501 <= o.mid <= mids[0]), "notification sent as ACK / under a request's message ID"
                    # Observe values strictly increase within a registration (a registration starts with the value 0 response)
                    run = []
                    for o in ns:
                        if o.opt.observe == 0 and run:
                            run = []
                        assert not run or o.opt.observe > run[-1], "Observe values must strictly increase within a registration"
                        run.append(o.opt.observe)
                    assert loop.exceptions == []
                # ---- quiesce: acknowledge everything, let renders finish
                if not down:
                    for _ in range(6):
                        loop.advance(7)
                        for k in active():
                            S.deliver(Message(code=EMPTY, _mtype=ACK, _mid=k[1]).encode(), src)
                    loop.advance(7)
                w = wire()
                if quiet_from is not None and reg is None:
                    assert all(ob is None for (ob, st, cd) in w[quiet_from:]), "notification transmitted for a registration that has ended"
                run_states = []
                for (ob, st, cd) in w:
                    if ob == 0:
                        run_states = []
                    if ob is not None and st is not None:
                        assert not run_states or st >= run_states[-1], "an older state notified after a newer one within a registration"
                        run_states.append(st)
                ns = notifs()
                # ended registrations: callback exactly once, nothing sent for them afterwards
                for (i, n_at_end, final_allowed) in ended_marks:
                    assert res.regs[i][0] == 1, "cancellation callback must have run exactly once"
                live_regs = [i for i, r in enumerate(res.regs) if r[0] == 0]
                assert all(r[0] <= 1 for r in res.regs)
                if reg is None:
                    assert live_regs == ([0] if two_observers and not down else []), "observer leaked"
                    assert res.counts[-1] == (base if not down else 0), "observer count must return to its previous value"
                    # no further notification after the end: provoke one
                    n_before = len(mine())
                    if not down:
                        res.state += 1
                        res.updated_state()
                        loop.advance(20)
                    after = mine()
                    assert len(after) == n_before, "notification sent for an ended registration"
                else:
                    assert live_regs == ([0, reg] if two_observers else [reg]) and res.counts[-1] == 1 + base
                    # the latest state has been notified (coalescing earlier ones is fine)
                    assert ns[-1].payload == b"s%d" % res.state, "a notification rendered at or after the last change must be sent"
                assert loop.exceptions == []
            assert not reach, "reach"
        return h
    return make


FIRST_ENDS = ["render-raises", "render-unsuccessful", "shutdown", "plainget-same-token", "rereg-same-token", "error", "none"]


def mk_first_render(reach):
    """the registration ends while its first rendering is still running (or through it): render raises / answers unsuccessfully,
    shutdown, a new request on the same token, a transport error -- at a symbolic instant within the rendering"""
    import asyncio
    from vf import stack
    from vf.simloop import SimLoop
    from aiocoap.message import Message
    from aiocoap import resource, error
    from aiocoap.numbers.types import CON, NON, ACK
    from aiocoap.numbers.codes import GET, EMPTY, NOT_FOUND
    stack.configure(ack_timeout=2000, ack_random_factor=1, max_retransmit=1)

    class Obs(resource.ObservableResource):
        def __init__(self, mode):
            super().__init__()
            self.mode = mode
            self.state = 0
            self.counts = []
            self.regs = []
            self.renders = 0

        async def add_observation(self, request, serverobservation):
            await super().add_observation(request, serverobservation)
            rec = [0]
            self.regs.append(rec)
            inner = serverobservation._cancellation_callback

            def counted():
                rec[0] += 1
                inner()
            serverobservation._cancellation_callback = counted

        def update_observation_count(self, n):
            self.counts.append(n)

        async def render_get(self, request):
            self.renders += 1
            first = self.renders == 1
            s = self.state
            await asyncio.sleep(5)
            if first and self.mode == "render-raises":
                raise error.BadRequest("no")
            if first and self.mode == "render-unsuccessful":
                return Message(code=NOT_FOUND, payload=b"gone")
            return Message(payload=b"s%d" % s)

    def h(mi: int, con: bool, t: int) -> None:
        assert 0 <= mi < len(FIRST_ENDS) and 0 <= t <= 6
        mode = pick(FIRST_ENDS, mi)
        with SimLoop() as loop:
            res = Obs(mode)
            site = resource.Site()
            site.add_resource(["o"], res)
            S = stack.StackS(loop, site)
            src = stack.R0
            mids = [500]

            def get(observe):
                mids[0] += 1
                m = Message(code=GET, _mtype=CON if con else NON, _mid=mids[0], _token=b"\x09", uri_path=["o"])
                if observe is not None:
                    m.opt.observe = observe
                S.deliver(m.encode(), src)
            get(0)
            assert len(res.regs) == 1 and res.counts[-1] == 1
            loop.advance(t)
            during = t < 5                 # the first rendering has not returned yet
            live = 0                       # index of the registration that must be live at the end (None: none)
            down = False
            if mode in ("render-raises", "render-unsuccessful"):
                live = None
            elif mode == "shutdown":
                tk = S.shutdown()
                loop.advance(10)
                assert tk.done() and tk.exception() is None
                live, down = None, True
            elif mode == "plainget-same-token":
                get(None)
                live = None
            elif mode == "rereg-same-token":
                get(0)
                live = 1
            elif mode == "error":
                S.icmp_error(src)
                live = None
            loop.advance(20)
            # quiesce: acknowledge whatever is open
            for _ in range(4):
                for k in [k for k in S.mman._active_exchanges or () if k[0].sockaddr[:2] == src[:2]]:
                    S.deliver(Message(code=EMPTY, _mtype=ACK, _mid=k[1]).encode(), src)
                loop.advance(7)
            assert all(r[0] <= 1 for r in res.regs), "cancellation callback ran twice"
            assert [i for i, r in enumerate(res.regs) if r[0] == 0] == ([] if live is None else [live]), \
                "registration that ended during / through its first rendering leaked (cancellation callback not run)"
            assert res.counts[-1] == (0 if live is None else 1), "observer count must return to its previous value"
            n0 = len(S.tr.sent)
            if not down:
                res.state += 1
                res.updated_state()
                loop.advance(20)
            new = [Message.decode(d) for (d, a, tm) in S.tr.sent[n0:]]
            if live is None:
                assert new == [], "notification sent for an ended registration"
            else:
                assert [x.payload for x in new if x.opt.observe is not None][-1:] == [b"s1"], "live registration not notified of the latest state"
            assert loop.exceptions == []
        assert not reach, "reach"
    return h


def mk_two_same_endpoint(reach):
    """two registrations from ONE endpoint (different tokens): what ends one of them leaves the other alone -- in particular its
    notification waiting behind the first in the per-endpoint NSTART queue is still delivered"""
    from vf import stack
    from vf.simloop import SimLoop
    from aiocoap.message import Message
    from aiocoap import resource
    from aiocoap.numbers.types import CON, NON, ACK, RST
    from aiocoap.numbers.codes import GET, EMPTY
    stack.configure(ack_timeout=2000, ack_random_factor=1, max_retransmit=1)

    class Obs(resource.ObservableResource):
        def __init__(self):
            super().__init__()
            self.state = 0
            self.counts = []

        def update_observation_count(self, n):
            self.counts.append(n)

        async def render_get(self, request):
            return Message(payload=b"s%d" % self.state)

    def h(how: int, later_change: bool, order: bool) -> None:
        assert 0 <= how <= 2
        with SimLoop() as loop:
            res = Obs()
            site = resource.Site()
            site.add_resource(["o"], res)
            S = stack.StackS(loop, site)
            src = stack.R0
            toks = [b"\x09", b"\x0a"] if order else [b"\x0a", b"\x09"]
            for i, tk in enumerate(toks):
                S.deliver(Message(code=GET, _mtype=CON, _mid=501 + i, _token=tk, uri_path=["o"], observe=0).encode(), src)
                loop.advance(5)
            assert res.counts[-1] == 2
            res.state += 1
            res.updated_state()
            loop.run_ready()
            act = [k for k in S.mman._active_exchanges if k[0].sockaddr[:2] == src[:2]]
            assert len(act) == 1
            inflight = [Message.decode(d) for (d, a, tm) in S.tr.sent if Message.decode(d).mid == act[0][1]][0]
            ended, other = inflight.token, [tk for tk in toks if tk != inflight.token][0]
            # how: 0 Reset for the in-flight notification / 1 the in-flight one is acknowledged (control) / 2 deregistering GET on its token
            if how == 0:
                S.deliver(Message(code=EMPTY, _mtype=RST, _mid=act[0][1]).encode(), src)
            elif how == 1:
                S.deliver(Message(code=EMPTY, _mtype=ACK, _mid=act[0][1]).encode(), src)
                ended = None
            else:
                S.deliver(Message(code=GET, _mtype=CON, _mid=600, _token=ended, uri_path=["o"], observe=1).encode(), src)
            loop.advance(5)
            if later_change:
                res.state += 1
                res.updated_state()
                loop.run_ready()
            for _ in range(6):
                for k in [k for k in S.mman._active_exchanges if k[0].sockaddr[:2] == src[:2]]:
                    S.deliver(Message(code=EMPTY, _mtype=ACK, _mid=k[1]).encode(), src)
                loop.advance(7)
            assert res.counts[-1] == (2 if ended is None else 1), "observer count after one of two registrations ended"
            out = [Message.decode(d) for (d, a, tm) in S.tr.sent]
            for tk in toks:
                if tk == ended:
                    continue
                mine = [o for o in out if o.token == tk and o.opt.observe is not None]
                assert mine[-1].payload == b"s%d" % res.state, "a live registration was not notified of the latest state"
                obsv = [o.opt.observe for o in mine]
                assert all(b > a for a, b in zip(obsv, obsv[1:]))
            assert loop.exceptions == []
        assert not reach, "reach"
    return h


def obligations(tier):
    q = tier == "quick"
    depth = 3 if q else 4
    obs = []
    for first in range(len(EV)):
        for slow in (False, True):
            obs.append(Obligation("observe-con-%s-first-%s" % ("slowrender" if slow else "fast", EV[first]), mk_obs(first, depth, slow, True),
                                  280 if q else 1500, functions=FUNCS,
                                  symbolic={"later events": "%d indices over %s" % (depth - 1, EV)},
                                  concrete={"first event": EV[first], "render suspends after sampling state": slow, "registration": "CON"},
                                  stubs=["SimLoop", "FakeDatagramTransport", "integer tuning", "random stubs"]))
        if EV[first] != "rst":
            obs.append(Obligation("observe-non-first-%s" % EV[first], mk_obs(first, depth, False, False, allow_rst=False),
                                  280 if q else 1500, functions=FUNCS,
                                  symbolic={"later events": "%d indices over %s (Reset excluded: D7)" % (depth - 1, EV)},
                                  concrete={"first event": EV[first], "registration": "NON"}))
    for first in (0, 2, 6):
        obs.append(Obligation("observe-two-observers-first-%s" % EV[first], mk_obs(first, depth, False, True, two_observers=True),
                              280 if q else 1500, functions=FUNCS,
                              symbolic={"later events": "%d indices" % (depth - 1)}, concrete={"first event": EV[first], "second observer": "other endpoint, other token, stays registered"}))
    obs.append(Obligation("observe-ends-during-first-render", mk_first_render, 280 if q else 900, functions=FUNCS,
                          symbolic={"how it ends": "index over %s" % FIRST_ENDS, "registration type": "CON / NON", "instant": "0..6 ticks into a rendering of 5 ticks"},
                          stubs=["SimLoop", "FakeDatagramTransport", "integer tuning", "random stubs"]))
    obs.append(Obligation("observe-two-registrations-one-endpoint", mk_two_same_endpoint, 200 if q else 600, functions=FUNCS,
                          symbolic={"what happens to the in-flight notification": "Reset / ACK / deregistering GET on its token", "further change afterwards": "bool", "registration order": "bool"},
                          concrete={"registrations": "two CON registrations from one endpoint, tokens 09 and 0a; one change puts one notification in flight and queues the other"}))
    # known finding D20: registration ended while notifications of it wait in the NSTART backlog
    for nm, kinds in (("rst", ("rst",)), ("new-request", ("rereg", "plainget", "dereg"))):
        obs.append(Obligation("observe-backlog-after-end-%s" % nm, mk_obs(0, 3, False, True, d20="include", only=(0, kinds)), 120, functions=FUNCS,
                              expect="violated", finding="D20", twin=False,
                              symbolic={"third event": "index over %s" % (kinds,)},
                              concrete={"events": "change, change (second notification queued behind the unacknowledged first), then the ending event", "registration": "CON"},
                              note="companion of known finding D20"))
    # known finding D7: Reset answering a non-confirmable notification
    obs.append(Obligation("observe-non-rst", mk_obs(0, 2, False, False, allow_rst=True), 120, functions=FUNCS, expect="violated", finding="D7", twin=False,
                          symbolic={"second event": "index (a Reset after the first non-confirmable notification is among them)"},
                          concrete={"first event": "change", "registration": "NON"}, note="companion of known finding D7"))
    return obs
