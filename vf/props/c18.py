"""C18 -- shutdown at any moment fails pending work and leaves nothing running."""
from vf.api import Obligation, pick

META = {
    "explanation": "Two instances of stack S on one virtual-time loop. The first is brought into a busy scenario chosen by "
    "symbolic index (CON awaiting ACK, acknowledged request awaiting its separate response, block-wise upload in progress, "
    "active client observation, slow server handler with pending empty-ACK timer, registered observer, queued NSTART backlog, "
    "unexpired deduplication entries, combinations) and shut down at a symbolic instant; optionally a new request is submitted "
    "after k loop steps of the running shutdown. Asserted: every client future / observation ends with an aiocoap Error within "
    "the shutdown time-out, handlers are cancelled, shutdown completes, afterwards (all remaining timers run) nothing is sent, "
    "nothing raises in the loop, later requests fail at once with LibraryShutdown, and the second context still works.",
    "trusted_base": ["vf.stack (fake datagram transport: sends after close are recorded as violations)", "vf.simloop.SimLoop"],
    "assumptions": [
        "integer ticks (1 ms): SHUTDOWN_TIMEOUT is patched to 3000 ticks to match; shutdown instant in [0, 7000]",
        "one symbolic instant per obligation; scenarios and the race step by symbolic index",
    ],
}

FUNCS = ["protocol.Context.shutdown", "TokenManager.shutdown/request/dispatch_error", "MessageManager.shutdown/send_message/dispatch_error",
         "MessageInterfaceUDP6.shutdown/connection_lost/error_received", "protocol.Request/BlockwiseRequest/ClientObservation", "pipe.run_driving_pipe"]

SCEN = [("con_wait_ack",), ("acked_wait_sep",), ("blockwise_upload",), ("client_obs",), ("server_slow",), ("server_observer",),
        ("backlog",), ("dedup",), ("con_wait_ack", "server_slow"), ("client_obs", "server_observer", "dedup"), ("non_wait",),
        ("client_obs_pending",), ("client_obs_pending_blockwise",), ("server_slow", "server_slow_rerequest"),
        ("server_observer", "server_observer_rereg"), ("client_obs_iter",), ("stalled_interface", "con_wait_ack"),
        ("server_awaits_own_request_con",), ("server_awaits_own_request_non",)]


def mk_shutdown(si, race):
    def make(reach):
        import asyncio
        from vf import stack
        from vf.simloop import SimLoop
        import aiocoap.protocol as proto
        from aiocoap.message import Message
        from aiocoap import resource, error
        from aiocoap.numbers.types import CON, NON, ACK, RST
        from aiocoap.numbers.codes import GET, PUT, EMPTY, CONTENT
        stack.configure(ack_timeout=2000, ack_random_factor=1, max_retransmit=2)
        proto.SHUTDOWN_TIMEOUT = 3000

        class Clock:
            def time(self):
                return 0
        proto.time = Clock()        # wall clock used for observation freshness only (C07's subject)
        flags = SCEN[si]

        class Slow(resource.Resource):
            def __init__(self):
                super().__init__()
                self.cancelled = 0
                self.finished = 0

            async def render_get(self, request):
                try:
                    await asyncio.sleep(5000)
                except asyncio.CancelledError:
                    self.cancelled += 1
                    raise
                self.finished += 1
                return Message(payload=b"late")

        class Obs(resource.ObservableResource):
            def __init__(self):
                super().__init__()
                self.count = 0

            def update_observation_count(self, n):
                self.count = n

            async def render_get(self, request):
                return Message(payload=b"o")

        class Forwarding(resource.Resource):
            """a handler that awaits a request of its own through the same context (what a forward proxy does)"""

            def __init__(self, mtype):
                super().__init__()
                self.mtype = mtype
                self.stack = None
                self.cancelled = 0

            async def render_get(self, request):
                m = Message(code=GET, uri_path=["up"], _mtype=self.mtype)
                m.remote = self.stack.remote(stack.R2)
                try:
                    r = await self.stack.ctx.request(m, handle_blockwise=False).response
                except asyncio.CancelledError:
                    self.cancelled += 1
                    raise
                return Message(payload=r.payload)

        class Fast(resource.Resource):
            async def render_get(self, request):
                return Message(payload=b"f")

        def h(t_shutdown: int, k: int) -> None:
            assert 0 <= t_shutdown <= 7000 and 0 <= k <= 6 and (race or k == 0)
            with SimLoop() as loop:
                slow, obsres = Slow(), Obs()
                site = resource.Site()
                site.add_resource(["s"], slow)
                site.add_resource(["o"], obsres)
                site.add_resource(["f"], Fast())
                fwd = Forwarding(NON if "server_awaits_own_request_non" in flags else CON)
                site.add_resource(["p"], fwd)
                A = stack.StackS(loop, site)
                fwd.stack = A
                B = stack.StackS(loop, None, port=5684)
                futs = []           # client futures of A that must end with an Error
                observations = []
                peer = stack.R0

                def a_request(path, mtype=CON, observe=None, payload=b"", blockwise=False, remote=peer):
                    m = Message(code=PUT if payload else GET, uri_path=[path], _mtype=mtype, payload=payload)
                    if observe is not None:
                        m.opt.observe = observe
                    m.remote = A.remote(remote)
                    rq = A.ctx.request(m, handle_blockwise=blockwise)
                    loop.run_ready()
                    return rq, m

                def last_sent():
                    return Message.decode(A.tr.sent[-1][0])

                if "con_wait_ack" in flags:
                    rq, m = a_request("x")
                    futs.append(rq.response)
                if "non_wait" in flags:
                    rq, m = a_request("n", mtype=NON)
                    futs.append(rq.response)
                if "acked_wait_sep" in flags:
                    rq, m = a_request("y")
                    A.deliver(Message(code=EMPTY, _mtype=ACK, _mid=last_sent().mid).encode(), peer)
                    futs.append(rq.response)
                if "blockwise_upload" in flags:
                    rq, m = a_request("big", payload=b"z" * 2500, blockwise=True)
                    first = last_sent()
                    assert first.opt.block1 is not None and first.opt.block1.more
                    futs.append(rq.response)
                if "client_obs" in flags:
                    rq, m = a_request("obs", observe=0, remote=stack.R1)
                    req = last_sent()
                    A.deliver(Message(code=CONTENT, _mtype=ACK, _mid=req.mid, _token=req.token, observe=5, payload=b"v").encode(), stack.R1)
                    assert rq.response.done()
                    errs = []
                    rq.observation.register_errback(errs.append, _suppress_deprecation=True)
                    observations.append(errs)
                iter_tasks = []
                req_it = None
                if "client_obs_iter" in flags:
                    # an established observation consumed with `async for`; a notification is read in the very loop iteration
                    # in which shutdown starts (delivered below, right before the shutdown call)
                    rq, m = a_request("obs3", observe=0, remote=stack.R1)
                    req_it = last_sent()
                    A.deliver(Message(code=CONTENT, _mtype=ACK, _mid=req_it.mid, _token=req_it.token, observe=5, payload=b"v").encode(), stack.R1)
                    assert rq.response.done()
                    seen = []

                    async def consume(obs=rq.observation):
                        async for n in obs:
                            seen.append(n.payload)
                    iter_tasks.append(loop.create_task(consume()))
                    loop.run_ready()
                if "stalled_interface" in flags:
                    class Stalled:
                        async def shutdown(self):
                            await asyncio.sleep(10 ** 7)

                        async def fill_or_recognize_remote(self, message):
                            return False
                    A.ctx.request_interfaces.append(Stalled())
                if "client_obs_pending" in flags or "client_obs_pending_blockwise" in flags:
                    # an observation whose first response has not arrived yet
                    rq, m = a_request("obs2", observe=0, remote=stack.R1, blockwise="client_obs_pending_blockwise" in flags)
                    errs = []
                    rq.observation.register_errback(errs.append, _suppress_deprecation=True)
                    observations.append(errs)
                    futs.append(rq.response)
                if "backlog" in flags:
                    rq1, m1 = a_request("q1", remote=stack.R2)
                    rq2, m2 = a_request("q2", remote=stack.R2)
                    futs += [rq1.response, rq2.response]
                if "server_slow" in flags:
                    A.deliver(Message(code=GET, _mtype=CON, _mid=77, _token=b"\x09", uri_path=["s"]).encode(), ("2001:db8::9", 999, 0, 0))
                if "server_slow_rerequest" in flags:
                    # the same peer starts a new request on the same token while the first handler is still running: the old
                    # handler is stopped, the new one runs -- and has to be tracked for shutdown like any other
                    A.deliver(Message(code=GET, _mtype=CON, _mid=81, _token=b"\x09", uri_path=["s"]).encode(), ("2001:db8::9", 999, 0, 0))
                    assert slow.cancelled == 1
                if "server_awaits_own_request_con" in flags or "server_awaits_own_request_non" in flags:
                    A.deliver(Message(code=GET, _mtype=CON, _mid=83, _token=b"\x0d", uri_path=["p"]).encode(), ("2001:db8::9", 996, 0, 0))
                if "server_observer" in flags:
                    A.deliver(Message(code=GET, _mtype=CON, _mid=78, _token=b"\x0a", uri_path=["o"], observe=0).encode(), ("2001:db8::9", 998, 0, 0))
                    assert obsres.count == 1
                if "server_observer_rereg" in flags:
                    A.deliver(Message(code=GET, _mtype=CON, _mid=82, _token=b"\x0a", uri_path=["o"], observe=0).encode(), ("2001:db8::9", 998, 0, 0))
                    assert obsres.count == 1
                if "dedup" in flags:
                    A.deliver(Message(code=GET, _mtype=CON, _mid=79, _token=b"\x0b", uri_path=["f"]).encode(), ("2001:db8::9", 997, 0, 0))
                    A.deliver(Message(code=GET, _mtype=NON, _mid=80, _token=b"\x0c", uri_path=["f"]).encode(), ("2001:db8::9", 997, 0, 0))
                # the other context has work of its own
                mb = Message(code=GET, uri_path=["b"], _mtype=CON)
                mb.remote = B.remote(stack.R0)
                rqb = B.ctx.request(mb, handle_blockwise=False)
                loop.run_ready()
                breq = Message.decode(B.tr.sent[-1][0])

                loop.advance_to(t_shutdown)
                t = loop.create_task(A.ctx.shutdown())
                def notify_iter():
                    if "client_obs_iter" in flags and not A.tr.closed:
                        # (a closed transport delivers nothing any more)
                        # a notification arrives after shutdown() was called: before its first step, or (race form) k steps into it
                        A.mint.datagram_msg_received(Message(code=CONTENT, _mtype=NON, _mid=9000, _token=req_it.token, observe=6, payload=b"w").encode(),
                                                     [(__import__("socket").IPPROTO_IPV6, __import__("socket").IPV6_PKTINFO, stack.pktinfo(False))], 0, stack.R1)
                late_during = None
                if not race:
                    notify_iter()
                if race:
                    loop.run_steps(pick(list(range(7)), k))
                    notify_iter()
                    ml = Message(code=GET, uri_path=["late"], _mtype=NON)
                    ml.remote = A.remote(peer)
                    late_during = A.ctx.request(ml, handle_blockwise=False).response
                loop.run_ready()
                loop.advance_to(t_shutdown + 3000)
                assert t.done() and t.exception() is None, "shutdown must complete within the shutdown time-out"
                n_sent = len(A.tr.sent)
                for f in futs:
                    assert f.done() and isinstance(f.exception(), error.Error), "outstanding request must end with a library error"
                for errs in observations:
                    assert len(errs) == 1 and isinstance(errs[0], error.Error), "observation must end with a library error"
                for tk in iter_tasks:
                    assert tk.done() and isinstance(tk.exception(), error.Error), "`async for` consumer of an observation must end with a library error"
                if late_during is not None:
                    assert late_during.done() and isinstance(late_during.exception(), error.Error)
                if "server_slow" in flags and t_shutdown < 5000:
                    assert slow.cancelled == (2 if "server_slow_rerequest" in flags else 1) and slow.finished == 0, "running handlers are cancelled"
                if "server_awaits_own_request_con" in flags or "server_awaits_own_request_non" in flags:
                    assert fwd.cancelled == 1, "running handlers are cancelled"
                if "server_observer" in flags:
                    assert obsres.count == 0, "observation registrations are ended by shutdown"
                    obsres.updated_state()          # a state change after shutdown: nothing may be sent for it (checked below)
                # a request submitted afterwards fails immediately with the shutdown error
                q2 = Message(code=GET, uri_path=["after"])
                q2.remote = A.remote(peer)
                late = A.ctx.request(q2, handle_blockwise=False).response
                loop.run_ready()
                assert late.done() and isinstance(late.exception(), error.LibraryShutdown)
                # ... also when the application gives up on it before the loop got to it
                q3 = Message(code=GET, uri_path=["after2"])
                q3.remote = A.remote(peer)
                late3 = A.ctx.request(q3, handle_blockwise=False).response
                late3.cancel()
                loop.run_ready()
                assert late3.cancelled()
                # the other context is unaffected
                B.deliver(Message(code=CONTENT, _mtype=ACK, _mid=breq.mid, _token=breq.token, payload=b"b-ok").encode(), stack.R0)
                assert rqb.response.done() and rqb.response.result().payload == b"b-ok"
                # run every timer that is left: nothing more is transmitted, nothing raises in the loop
                loop.drain()
                assert len(A.tr.sent) == n_sent and A.tr.sent_after_close == [], "transmission after shutdown"
                assert loop.exceptions == [] and loop.unretrieved_task_exceptions() == [], "callback or task raised in the event loop after shutdown"
                tb = B.shutdown()
                loop.drain()
                assert tb.done() and tb.exception() is None
            assert not reach, "reach"
        return h
    return make


def obligations(tier):
    q = tier == "quick"
    obs = []
    for si in range(len(SCEN)):
        obs.append(Obligation("shutdown-%s" % "+".join(SCEN[si]), mk_shutdown(si, False), 280 if q else 1200, functions=FUNCS,
                              symbolic={"shutdown instant": "[0, 7000] ticks"}, concrete={"scenario": list(SCEN[si])},
                              stubs=["SimLoop", "2 x FakeDatagramTransport", "integer tuning", "SHUTDOWN_TIMEOUT = 3000 ticks"]))
    for si in ([0, 4, 9, SCEN.index(("client_obs_iter",))] if q else range(len(SCEN))):
        obs.append(Obligation("shutdown-race-%s" % "+".join(SCEN[si]), mk_shutdown(si, True), 280 if q else 1200, functions=FUNCS,
                              symbolic={"shutdown instant": "[0, 7000] ticks", "new request submitted after k loop steps of the shutdown": "index 0..6"},
                              concrete={"scenario": list(SCEN[si])}))
    return obs
