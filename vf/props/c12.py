"""C12 -- OSCORE replay protection: a protected request is accepted at most once."""
from vf.api import Obligation

META = {
    "explanation": "E2: ReplayWindow.is_valid/strike_out/initialize_* are translated from /repo/aiocoap/oscore.py to z3 "
    "bit-vectors and one strike_out step from an arbitrary state satisfying the representation invariant is proven to preserve "
    "it and to implement at-most-once / never-revalidate / above-everything-seen-is-valid (inductive step over histories of any "
    "length), for concrete window sizes and all indices/numbers < 2^40. E1: CanUnprotect.unprotect over ideal crypto stubs is "
    "driven with arrival sequences chosen by symbolic index over authentic, replayed and forged requests and compared with a "
    "reference sliding-window model; forgeries must leave the window untouched; an uninitialised window accepts nothing until "
    "the Echo value issued by this instance comes back.",
    "trusted_base": ["vf/pysym.py translator (validated on the repo's doctest sequence on every run)", "vf/oscstubs.py ideal AEAD/HKDF/CBOR",
                     "reference window model in the harness"],
    "assumptions": [
        "sequence numbers, index < 2^40; window sizes enumerated (32 quick; 1,2,8,32,64 thorough); 64/96-bit words with no-overflow side conditions",
        "arrival sequences of length 3 (quick) / 4 (thorough) over a 10-message catalogue, window size 32 and 4",
        "ideal AEAD: a message verifies iff exactly its (key, nonce, AAD, ciphertext) was produced by protect",
    ],
}


def mk_rw_step(size):
    def make(reach):
        import ast
        import z3
        from vf import pysym
        W = 64 if size <= 32 else 96

        def build():
            src = __import__("vf.api", fromlist=["x"]).repo_source("aiocoap/oscore.py")
            I = pysym.Interp(src, "ReplayWindow", width=W)
            return I

        def valid(I, state, x):
            p = pysym.Path(z3.BoolVal(True), state, {"x": x}, [])
            return I.expr(ast.parse("self.is_valid(x)").body[0].value, p)

        def solve(reach):
            I = build()
            index, bf, n, m, top = [z3.BitVec(x, W) for x in ("index", "bf", "n", "m", "top")]
            lim = I.bv(2 ** 40)
            # representation invariant: bitfield fits the window; `top` (ghost) = 1 + highest number accepted so far (or index):
            # no bit at or above top is set
            def inv(ix, b, tp):
                return z3.And(ix >= 0, ix < lim, b >= 0, z3.ULT(b, I.bv(2 ** size)), tp >= ix, tp <= ix + size,
                              z3.LShR(b, tp - ix) == 0)
            I.pre = z3.And(inv(index, bf, top), n >= 0, n < lim, m >= 0, m < lim)
            st = {"_index": index, "_bitfield": bf, "_size": size}
            # translation validation: the repo's doctest sequence through the encoding vs the real class
            validate_translation(I, size)
            pre_n, pre_m = valid(I, st, n), valid(I, st, m)
            paths = I.call("strike_out", st, [n])
            failures, unknown, reach_ok = [], 0, False

            def model_args(s):
                mdl = s.model()
                return {k: pysym.model_int(mdl, v) for k, v in (("index", index), ("bitfield", bf), ("n", n), ("m", m), ("top", top))}
            for (p, o) in paths:
                o = o or ("return", None)
                if o[0] == "raise":
                    # ValueError exactly for numbers that are not valid; the internal assertion never fires
                    if o[1] == "ValueError":
                        r, s = I.check(p.cond, pre_n)
                    else:
                        r, s = I.check(p.cond)
                    if r == z3.sat:
                        failures.append(("strike_out raises %s for a valid number" % o[1], model_args(s)))
                    elif r != z3.unsat:
                        unknown += 1
                    continue
                r0, _ = I.check(p.cond)
                reach_ok = reach_ok or r0 == z3.sat
                ix2, bf2 = p.state["_index"], p.state["_bitfield"]
                top2 = z3.If(n + 1 > top, n + 1, top)
                post_n, post_m = valid(I, p.state, n), valid(I, p.state, m)
                claims = [
                    ("accepted number is still valid afterwards (could be accepted twice)", z3.Not(post_n)),
                    ("a number invalid before became valid", z3.Implies(post_m, pre_m)),
                    ("a number above everything seen is not valid", z3.Implies(m >= top2, post_m)),
                    ("validity of an unrelated number inside the window changed", z3.Implies(z3.And(m != n, m >= ix2), post_m == pre_m)),
                    ("window moved backwards", ix2 >= index),
                    ("numbers that fell out of the window are valid", z3.Implies(m < ix2, z3.Not(post_m))),
                    ("representation invariant not preserved", inv(ix2, bf2, top2)),
                    ("machine-word side condition (shift/add range) can fail", z3.And(*p.guards) if p.guards else z3.BoolVal(True)),
                    ("strike-out callback not invoked", z3.BoolVal(p.state.get("__calls__") == ["strike_out_callback"])),
                ]
                for text, c in claims:
                    r, s = I.check(p.cond, z3.Not(c))
                    if r == z3.sat:
                        failures.append((text, model_args(s)))
                    elif r != z3.unsat:
                        unknown += 1
            return pysym.finish(I, failures, reach, reach_ok, len(paths), unknown)

        def validate_translation(I, size):
            import aiocoap  # noqa
            from vf import oscstubs
            oscstubs.install()
            from aiocoap.oscore import ReplayWindow
            real = ReplayWindow(size, lambda: None)
            real.initialize_empty()
            st = {"_index": 0, "_bitfield": 0, "_size": size}
            for num in (5, 0, 1, 2, 35, 36, 4, 36, size + 40, 3):
                rv = real.is_valid(num)
                ev = z3.simplify(valid(I, st, I.bv(num)))
                assert z3.is_true(ev) == rv, ("translation check failed (is_valid)", num)
                if rv:
                    real.strike_out(num)
                    outs = I.call("strike_out", st, [I.bv(num)])
                    outs = [(p, o) for (p, o) in outs if not (o and o[0] == "raise")]
                    assert len(outs) == 1, "translation check: concrete run must have one path"
                    st = outs[0][0].state
                    st = {"_index": z3.simplify(I.bv(st["_index"])), "_bitfield": z3.simplify(I.bv(st["_bitfield"])), "_size": size}
                    assert st["_index"].as_long() == real._index and st["_bitfield"].as_long() == real._bitfield, \
                        ("translation check failed (strike_out)", num)

        def replay(index, bitfield, n, m, top):
            from vf import oscstubs
            oscstubs.install()
            from aiocoap.oscore import ReplayWindow
            w = ReplayWindow(size, lambda: calls.append(1))
            calls = []
            w._index, w._bitfield = index, bitfield
            pre_n, pre_m = w.is_valid(n), w.is_valid(m)
            try:
                w.strike_out(n)
            except ValueError:
                assert not pre_n, "strike_out raises for a valid number"
                return
            assert pre_n
            top2 = max(top, n + 1)
            post_m = w.is_valid(m)
            assert not w.is_valid(n)
            assert (not post_m) or pre_m
            assert post_m or m < top2
            assert m == n or m < w._index or post_m == pre_m
            assert w._index >= index
            assert m >= w._index or not post_m
            assert 0 <= w._bitfield < 2 ** size and (w._bitfield >> (top2 - w._index)) == 0 and w._index <= top2 <= w._index + size
            assert calls == [1]
        return pysym.Runner(reach, solve, replay)
    return make


def mk_rw_init(size):
    def make(reach):
        import ast
        import z3
        from vf import pysym
        W = 64 if size <= 32 else 96

        def solve(reach):
            src = __import__("vf.api", fromlist=["x"]).repo_source("aiocoap/oscore.py")
            I = pysym.Interp(src, "ReplayWindow", width=W)
            s_, m = z3.BitVec("seen", W), z3.BitVec("m", W)
            lim = I.bv(2 ** 40)
            I.pre = z3.And(s_ >= 0, s_ < lim, m >= 0, m < lim)
            failures, unknown, reach_ok = [], 0, False

            def valid(state, x):
                return I.expr(ast.parse("self.is_valid(x)").body[0].value, pysym.Path(z3.BoolVal(True), state, {"x": x}, []))
            npaths = 0
            for meth, args, claim_fn in (
                ("initialize_from_freshlyseen", [s_], lambda st: z3.And(z3.Implies(m <= s_, z3.Not(valid(st, m))), z3.Implies(m > s_, valid(st, m)))),
                ("initialize_empty", [], lambda st: valid(st, m)),
            ):
                for (p, o) in I.call(meth, {"_size": size, "_index": None, "_bitfield": None}, args):
                    npaths += 1
                    r0, _ = I.check(p.cond)
                    reach_ok = reach_ok or r0 == z3.sat
                    c = z3.And(claim_fn(p.state), *p.guards)
                    r, s = I.check(p.cond, z3.Not(c))
                    if r == z3.sat:
                        mdl = s.model()
                        failures.append(("%s leaves a wrong validity set" % meth, {"seen": pysym.model_int(mdl, s_), "m": pysym.model_int(mdl, m), "which": meth}))
                    elif r != z3.unsat:
                        unknown += 1
            return pysym.finish(I, failures, reach, reach_ok, npaths, unknown)

        def replay(seen, m, which):
            from vf import oscstubs
            oscstubs.install()
            from aiocoap.oscore import ReplayWindow
            w = ReplayWindow(size, lambda: None)
            if which == "initialize_empty":
                w.initialize_empty()
                assert w.is_valid(m)
            else:
                w.initialize_from_freshlyseen(seen)
                assert w.is_valid(m) == (m > seen)
        return pysym.Runner(reach, solve, replay)
    return make


# ---------------- E1: unprotect arrival sequences over the ideal stubs
SEQNOS = [0, 1, 2, 5, 33, 40, 80]          # authentic requests exist for these numbers (window 32)


def mk_arrivals(window, depth, first):
    def make(reach):
        from vf import osckit
        from vf.osckit import o, Message, incoming
        from aiocoap.numbers.codes import GET
        from aiocoap import error
        osckit.oscstubs.ORACLE.reset()
        a, b0 = osckit.pair(window=window)
        AUTH = []
        for sn in SEQNOS:
            a.sender_sequence_number = sn
            outer, rid = a.protect(Message(code=GET, uri_path=["r%d" % sn], payload=b"p"))
            AUTH.append((sn, outer.opt.encode(), bytes(outer.payload)))
        # forgeries: valid-looking sequence numbers (used or unused, inside / far above the window) with a ciphertext that
        # was never produced for them
        FORGED = []
        for sn in (1, 3, 6, 41, 1000):
            piv = sn.to_bytes(5, "big").lstrip(b"\0") or b"\0"
            opt = bytes([len(piv) | 8]) + piv + a.sender_id
            m = Message(code=2, oscore=opt)
            FORGED.append((sn, m.opt.encode(), AUTH[3][2]))     # ciphertext produced for number 5
        CAT = [("auth", x) for x in AUTH] + [("forged", x) for x in FORGED]

        def h(e1: int, e2: int, e3: int) -> None:
            assert 0 <= e1 < len(CAT) and 0 <= e2 < len(CAT) and 0 <= e3 < len(CAT)
            evs = ([first] if first is not None else []) + [e1, e2, e3]
            evs = evs[:depth]
            b = osckit.make_ctx(b"", b"\x01", window=window)
            b.sender_key, b.recipient_key, b.common_iv = b0.sender_key, b0.recipient_key, b0.common_iv
            accepted = []
            hi = -1
            for e in evs:
                kind, (sn, optbytes, payload) = CAT[e]
                m = Message(code=2, payload=payload)
                m.opt.decode(optbytes)
                m.direction = osckit.Direction.INCOMING
                before = (b.recipient_replay_window._index, b.recipient_replay_window._bitfield)
                ok = None
                try:
                    plain, rid = b.unprotect(m)
                    ok = True
                except o.ProtectionInvalid:
                    ok = False
                # reference sliding-window model (RFC 8613 7.4 / property statement)
                expect = kind == "auth" and sn not in accepted and sn >= max(0, hi - window + 1)
                assert ok == expect
                if ok:
                    assert plain.opt.uri_path == ("r%d" % sn,) and plain.payload == b"p"
                    accepted.append(sn)
                    hi = max(hi, sn)
                else:
                    # failures (replays, too-old numbers, forgeries) never mark or advance the window
                    assert (b.recipient_replay_window._index, b.recipient_replay_window._bitfield) == before
            assert not reach, "reach"
        return h
    return make


def mk_uninitialised(depth):
  def make(reach):
    from vf import osckit
    from vf.osckit import o, Message
    from aiocoap.numbers.codes import GET, CONTENT
    osckit.oscstubs.ORACLE.reset()
    a, b0 = osckit.pair()
    ECHO = b"\x11\x22\x33\x44\x55\x66\x77\x88"
    CAT = []
    for sn, echo in ((3, None), (4, b"wrongval"), (5, ECHO), (6, None), (2, ECHO), (9, ECHO)):
        a.sender_sequence_number = sn
        req = Message(code=GET, uri_path=["x"])
        if echo is not None:
            req.opt.echo = echo
        outer, rid = a.protect(req)
        CAT.append((sn, echo, outer.opt.encode(), bytes(outer.payload)))

    def h(e1: int, e2: int, e3: int, e4: int, with_echo_recovery: bool) -> None:
        assert 0 <= e1 <= len(CAT) and 0 <= e2 <= len(CAT) and 0 <= e3 <= len(CAT) and 0 <= e4 <= len(CAT)
        b = osckit.make_ctx(b"", b"\x01", initialized=False)
        b.sender_key, b.recipient_key, b.common_iv = b0.sender_key, b0.recipient_key, b0.common_iv
        b.echo_recovery = ECHO if with_echo_recovery else None
        initialised_at = None
        accepted = []
        for e in (e1, e2, e3, e4)[:depth]:
            if e == len(CAT):
                # the context is also used as a client: an own request and its ordinary response (no partial IV of its own)
                # pass while the recipient window is still unusable -- which must not make it usable
                a2, _ = osckit.pair()
                outer2, rid2 = b.protect(Message(code=GET, uri_path=["y"]))
                got2, rida = a2.unprotect(osckit.incoming(outer2))
                resp2, _ = a2.protect(Message(code=CONTENT, payload=b"r"), rida)
                back, _ = b.unprotect(osckit.incoming(resp2), rid2)
                assert back.payload == b"r" and int(back.code) == 69
                continue
            sn, echo, optbytes, payload = CAT[e]
            m = Message(code=2, payload=payload)
            m.opt.decode(optbytes)
            m.direction = osckit.Direction.INCOMING
            try:
                b.unprotect(m)
                ok = True
            except o.ProtectionInvalid:
                ok = False
            if initialised_at is None:
                # state lost: nothing is accepted until the peer echoes the value issued by this instance
                expect = with_echo_recovery and echo == ECHO
                if expect:
                    initialised_at = sn
            else:
                expect = sn > initialised_at and sn not in accepted
            assert ok == expect
            if ok:
                accepted.append(sn)
        assert not reach, "reach"
    return h
  return make


def obligations(tier):
    q = tier == "quick"
    obs = []
    for size in ([32] if q else [1, 2, 8, 32, 64]):
        obs.append(Obligation("replaywindow-step-size%d" % size, mk_rw_step(size), 300, kind="pysym",
                              functions=["oscore.ReplayWindow.is_valid", "oscore.ReplayWindow.strike_out (AST -> z3 BV)"],
                              symbolic={"index, number n, probe m": "[0, 2^40)", "bitfield": "[0, 2^size)", "top (ghost)": "[index, index+size]"},
                              concrete={"window size": size, "word width": 64 if size <= 32 else 96},
                              stubs=["strike_out_callback recorded as uninterpreted call"]))
        obs.append(Obligation("replaywindow-init-size%d" % size, mk_rw_init(size), 300, kind="pysym",
                              functions=["oscore.ReplayWindow.initialize_from_freshlyseen", "initialize_empty", "is_valid"],
                              symbolic={"seen, m": "[0, 2^40)"}, concrete={"window size": size}))
    depth = 3 if q else 4
    for window in ([32] if q else [32, 4]):
        for first in range(12):
            obs.append(Obligation("unprotect-arrivals-w%d-first%02d" % (window, first), mk_arrivals(window, depth, first), 250 if q else 1500,
                                  functions=["oscore.CanUnprotect.unprotect", "oscore.ReplayWindow.*", "oscore._uncompress", "oscore._construct_nonce",
                                             "oscore._extract_external_aad"],
                                  symbolic={"later arrivals": "%d indices over 12 messages (7 authentic numbers, 5 forgeries)" % (depth - 1)},
                                  concrete={"first arrival": first, "window": window},
                                  stubs=["ideal AEAD/HKDF", "cbor stub"]))
    obs.append(Obligation("unprotect-uninitialised", mk_uninitialised(3 if q else 4), 250 if q else 1200,
                          functions=["oscore.CanUnprotect.unprotect (Echo recovery)", "ReplayWindow.initialize_from_freshlyseen"],
                          symbolic={"events": "3 (quick) / 4 indices over 6 requests (no / wrong / right Echo) and an own request/response round trip of this context as client", "echo_recovery configured": "bool"},
                          stubs=["ideal AEAD/HKDF", "cbor stub"]))
    from vf.props import c13
    for n1, first in ((2, 0), (2, 3)):
        obs.append(Obligation("state-lost-after-crash-n%d-first%d" % (n1, first), c13.mk_replay(n1, False, first), 250 if q else 1200,
                              functions=["oscore.FilesystemSecurityContext._replay_window_changed/_store/_load", "oscore.CanUnprotect.unprotect"],
                              symbolic={"requests before the crash": "%d by index" % n1, "crash position": "0..10", "request after reload": "index/4"},
                              stubs=["FakeFS", "ideal AEAD/HKDF"], note="same harness as C13 replay-state obligations"))
    return obs
