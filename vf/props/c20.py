"""C20 -- resource directory: lookups reflect exactly the live registrations."""
from vf.api import Obligation, pick, untraced

META = {
    "explanation": "The real StandaloneResourceDirectory site (DirectoryResource, RegistrationDispatchSite/RegistrationResource, "
    "EndpointLookupInterface, ResourceLookupInterface, CommonRD.Registration with its expiry task) runs on a virtual-time loop; "
    "histories of operations chosen by symbolic index -- register / re-register (endpoint names, sectors, valid / invalid / "
    "absent lt, explicit base, unsuitable parameters), update by POST (with and without body) or PUT, delete, passage of time "
    "by a solver-chosen number of seconds -- are applied, and after every operation both lookups are compared with a reference "
    "model of the live registrations (latest successful write + lt + grace), locations are checked to be kept on "
    "re-registration and never shared, and a 4.xx answer must leave both lookups and every registration resource unchanged.",
    "trusted_base": ["reference registration model in the harness", "vf.simloop.SimLoop (integer seconds)", "pipe-level driver"],
    "assumptions": ["2 endpoint names x 2 sectors, 3 (quick) / 4 (thorough) operations per history, one symbolic time step per history",
                    "simple registration (fetching /.well-known/core from the registrant) and proxying outside"],
}

FUNCS = ["cli.rd.CommonRD.initialize_endpoint/_new_pathtail", "cli.rd.CommonRD.Registration.update_params/delete/_set_timeout/refresh_timeout",
         "cli.rd.DirectoryResource.render_post", "cli.rd.RegistrationResource.render_post/render_put/render_delete", "cli.rd.RegistrationDispatchSite.render",
         "cli.rd.EndpointLookupInterface.render_get", "cli.rd.ResourceLookupInterface.render_get", "util.linkformat.parse"]

GRACE = 15


class Remote:
    is_multicast = False
    is_multicast_locally = False
    maximum_block_size_exp = 6
    maximum_payload_size = 1124
    scheme = "coap"
    hostinfo = "[2001:db8::1]"
    hostinfo_local = "rd.example"
    uri = "coap://[2001:db8::1]"
    uri_base = uri
    blockwise_key = ("R", 0)

    def as_response_address(self):
        return self


# operations: ("reg", ep, d, lt, base, extra) | ("post", target, lt, body) | ("postx", target, setting, bad) | ("put", target, links) |
# ("putx", target, bad query) | ("del", target) | ("wait",)
def catalogue():
    ops = []
    for ep in ("a", "b"):
        for d in (None, "x"):
            ops.append(("reg", ep, d, None, None, None))
    ops += [("reg", "a", None, "60", None, None), ("reg", "a", None, "100", "coap://base.example", None), ("reg", "a", None, "abc", None, None),
            ("reg", "b", None, "60", None, "rt=forbidden"), ("reg", None, None, "60", None, None), ("reg", "a", None, "60", None, "note=hello"),
            ("reg", "a", "x", "abc", None, None)]
    for target in (0, 1):
        ops += [("post", target, None, False), ("post", target, "120", False), ("post", target, "zz", False), ("post", target, "120", True),
                ("put", target, 1), ("del", target)]
    ops += [("post", 9, None, False), ("wait",), ("wait2",), ("postx", 0, "lt=86400", "rt=oops"), ("postx", 0, "base=coap://changed.example", "count=3"),
            ("postx", 0, "lt=200", "ep=z"), ("postx", 0, "base=coap://b2.example", None),
            ("postx", 0, "note=world", None), ("putx", 0, "lt=soon")]
    return ops


OPS = catalogue()


def mk_history(first, depth, lo=0, hi=None, prefix=()):
    def make(reach):
        import logging
        from vf.simloop import SimLoop
        from aiocoap.message import Message, Direction
        from aiocoap.pipe import Pipe, run_driving_pipe, error_to_message
        from aiocoap.cli import rd
        from aiocoap.numbers.codes import Code, GET, POST, PUT, DELETE
        from aiocoap.numbers.contentformat import ContentFormat
        from aiocoap.numbers.optionnumbers import OptionNumber
        from aiocoap.util.linkformat import parse
        for i in range(256):
            Code(i)
            ContentFormat(i)
        for i in range(64):
            OptionNumber(i)
        LOG = logging.getLogger("vf-null")

        def serve(loop, site, msg):
            msg.remote = Remote()
            msg.direction = Direction.INCOMING
            pipe = Pipe(msg, LOG)
            out = []
            pipe.on_event(lambda ev: (out.append(ev), True)[1])
            run_driving_pipe(error_to_message(pipe, LOG), site.render_to_pipe(pipe))
            loop.run_ready()
            assert len(out) == 1 and out[0].message is not None
            return out[0].message

        LINKSETS = [b'</s>;rt="t0"', b'</s>;rt="t1",</u>;if="core.s"']

        def h(e2: int, e3: int, e4: int, dt: int) -> None:
            assert lo <= e2 < (hi if hi is not None else len(OPS)) and 0 <= e3 < len(OPS) and 0 <= e4 < len(OPS) and 0 <= dt <= 400
            evs = list(prefix) + [first, e2, e3, e4][:depth]
            with SimLoop() as loop:
                site = rd.StandaloneResourceDirectory(context=None, log=LOG)
                model = {}                  # (ep, d) -> dict(loc, links, lt, base, extra, expiry)
                locs_ever = {}              # location -> key it was handed out for last

                def live():
                    return {k: v for k, v in model.items() if loop.time() < v["expiry"]}

                def snapshot():
                    lv = live()
                    # the lookups and the registration resources handle concrete data only (nothing depends on the symbolic
                    # time step here): run them natively
                    with untraced():
                        a = serve(loop, site, Message(code=GET, uri_path=["endpoint-lookup", ""]))
                        b = serve(loop, site, Message(code=GET, uri_path=["resource-lookup", ""]))
                        assert int(a.code) == 69 and int(b.code) == 69
                        per_reg = []
                        for k, v in sorted(lv.items(), key=lambda kv: str(kv[0])):
                            r = serve(loop, site, Message(code=GET, uri_path=list(v["loc"])))
                            per_reg.append((int(r.code), bytes(r.payload)))
                        return (bytes(a.payload), bytes(b.payload), tuple(per_reg))

                def check_lookups():
                    a, b, per_reg = snapshot()
                    lv = live()
                    with untraced():
                        _check(a, b, per_reg, lv)

                def _check(a, b, per_reg, lv):
                    eps = parse(a.decode("utf8")).links if a else []
                    listed = {}
                    for l in eps:
                        at = dict(l.attr_pairs)
                        listed[(at.get("ep"), at.get("d"))] = (l.href, at)
                    assert set(listed) == set(lv), "endpoint lookup must list exactly the live registrations"
                    for k, v in lv.items():
                        href, at = listed[k]
                        assert href == "/" + "/".join(v["loc"]), "listed at another location"
                        assert at.get("base") == v["base"] and at.get("rt") == "core.rd-ep"
                        if v["extra"]:
                            kk, vv = v["extra"].split("=")
                            assert at.get(kk) == vv
                    # resource lookup: exactly the links of the live registrations, resolved against their bases
                    res = parse(b.decode("utf8")).links if b else []
                    got = sorted((l.href, tuple(sorted((k_, v_) for k_, v_ in l.attr_pairs if k_ != "anchor"))) for l in res)
                    want = []
                    for k, v in lv.items():
                        for l in parse(v["links"].decode("utf8")).links:
                            want.append((v["base"] + l.href, tuple(sorted((k_, v_) for k_, v_ in l.attr_pairs))))
                    assert got == sorted(want), "resource lookup must list exactly the links of the live registrations"
                    # registration resources return the links of their latest successful write
                    for (code, payload), (k, v) in zip(per_reg, sorted(lv.items(), key=lambda kv: str(kv[0]))):
                        assert code == 69 and payload == v["links"]
                    # distinct registrations never share a location
                    locs = [v["loc"] for v in lv.values()]
                    assert len(set(locs)) == len(locs), "two live registrations share a location"

                targets = []                # keys in order of first registration (for update/delete targets)
                lastloc = {}
                for e in evs:
                    op = pick(OPS, e)
                    before = snapshot()
                    kind = op[0]
                    valid = True
                    if kind == "reg":
                        _, ep, d, lt, base, extra = op
                        q = []
                        if ep is not None:
                            q.append("ep=" + ep)
                        if d is not None:
                            q.append("d=" + d)
                        if lt is not None:
                            q.append("lt=" + lt)
                        if base is not None:
                            q.append("base=" + base)
                        if extra is not None:
                            q.append(extra)
                        links = LINKSETS[len(model) % 2]
                        resp = serve(loop, site, Message(code=POST, uri_path=["resourcedirectory", ""], uri_query=q, payload=links,
                                                         content_format=ContentFormat.LINKFORMAT))
                        valid = ep is not None and lt != "abc" and extra != "rt=forbidden"
                        if valid:
                            assert int(resp.code) == 65, "valid registration must be answered 2.01"
                            loc = tuple(resp.opt.location_path)
                            key = (ep, d)
                            old = live().get(key)
                            if old is not None:
                                assert loc == old["loc"], "re-registration must keep its location"
                            ltv = int(lt) if lt is not None else 90000
                            model[key] = dict(loc=loc, links=links, lt=ltv, base=base or Remote.uri, extra=extra, expiry=loop.time() + ltv + GRACE)
                            lastloc[key] = loc
                            if key not in targets:
                                targets.append(key)
                        else:
                            assert resp.code.class_ == 4
                    elif kind in ("post", "postx", "put", "putx", "del"):
                        ti = op[1]
                        key = targets[ti] if ti < len(targets) else None
                        cur = live().get(key) if key is not None else None
                        if key is None:
                            path = ["reg", "77", ""]
                        else:
                            path = list(lastloc[key])
                        if key is not None and cur is None and any(v["loc"] == lastloc[key] for v in live().values()):
                            # the location of a registration that is gone has meanwhile been given to a newer registration (locations
                            # are only unique among live registrations): a request to it legitimately addresses the newer one --
                            # not the "update of a removed registration" this operation stands for
                            continue
                        if kind == "post":
                            _, _, lt, body = op
                            m = Message(code=POST, uri_path=path, uri_query=(["lt=" + lt] if lt else []))
                            if body:
                                m.payload = LINKSETS[1]
                                m.opt.content_format = ContentFormat.LINKFORMAT
                            resp = serve(loop, site, m)
                            valid = cur is not None and lt != "zz" and not body
                            if valid:
                                assert int(resp.code) == 68
                                if lt:
                                    cur["lt"] = int(lt)
                                cur["expiry"] = loop.time() + cur["lt"] + GRACE
                            else:
                                assert resp.code.class_ == 4
                        elif kind == "postx":
                            _, _, setting, bad = op
                            m = Message(code=POST, uri_path=path, uri_query=[setting] + ([bad] if bad else []))
                            resp = serve(loop, site, m)
                            valid = cur is not None and bad is None
                            if valid:
                                assert int(resp.code) == 68
                                k_, v_ = setting.split("=", 1)
                                if k_ == "lt":
                                    cur["lt"] = int(v_)
                                elif k_ == "base":
                                    cur["base"] = v_
                                else:
                                    cur["extra"] = setting      # an ordinary parameter: the latest write wins
                                cur["expiry"] = loop.time() + cur["lt"] + GRACE
                            else:
                                assert resp.code.class_ == 4
                        elif kind == "putx":
                            # PUT with a well-formed body and a query that is rejected: nothing of it may be stored
                            m = Message(code=PUT, uri_path=path, uri_query=[op[2]], payload=LINKSETS[1] if cur is None or cur["links"] != LINKSETS[1] else LINKSETS[0],
                                        content_format=ContentFormat.LINKFORMAT)
                            resp = serve(loop, site, m)
                            valid = False
                            assert resp.code.class_ == 4
                        elif kind == "put":
                            m = Message(code=PUT, uri_path=path, payload=LINKSETS[1], content_format=ContentFormat.LINKFORMAT)
                            resp = serve(loop, site, m)
                            valid = cur is not None
                            if valid:
                                assert int(resp.code) == 68
                                cur["links"] = LINKSETS[1]
                                cur["expiry"] = loop.time() + cur["lt"] + GRACE
                            else:
                                assert resp.code.class_ == 4
                        else:
                            resp = serve(loop, site, Message(code=DELETE, uri_path=path))
                            valid = cur is not None
                            if valid:
                                assert int(resp.code) == 66
                                del model[key]
                            else:
                                assert resp.code.class_ == 4
                    elif kind == "wait":
                        loop.advance(dt)
                    else:
                        loop.advance(75)
                    if kind not in ("wait", "wait2") and not valid:
                        assert snapshot() == before, "a request answered 4.xx must leave the directory unchanged"
                    for k in [k for k, v in model.items() if loop.time() >= v["expiry"]]:
                        del model[k]
                    check_lookups()
                assert loop.exceptions == []
                for t in loop.tasks:
                    t.cancel()
                loop.run_ready()
            assert not reach, "reach"
        return h
    return make


def obligations(tier):
    q = tier == "quick"
    obs = []
    n = len(OPS)
    # both tiers: depth 3 (first operation fixed, two symbolic ones), the second operation in three ranges
    for first in [0, 4, 5, 6, 9]:
      for lo, hi in [(0, 9), (9, 18), (18, n)]:
        obs.append(Obligation("history-first%02d-second%02d" % (first, lo), mk_history(first, 3, lo, hi), 280 if q else 900, functions=FUNCS,
                              symbolic={"later operations": "2 indices over %d operations (second in [%d,%d))" % (len(OPS), lo, hi), "time step of 'wait'": "[0,400] s"},
                              concrete={"first operation": repr(OPS[first])}, stubs=["SimLoop (integer seconds)", "pipe-level driver", "fake remote with fixed base URI"]))
    # histories that start from two live registrations (a and b)
    for first in [16, 24]:
        obs.append(Obligation("history-from-two-first%02d" % first, mk_history(first, 2, 0, None, prefix=(4, 2)), 280 if q else 900, functions=FUNCS,
                              symbolic={"later operations": "1 index over %d operations" % len(OPS), "time step of 'wait'": "[0,400] s"},
                              concrete={"pre-state": "endpoint a (lt=60) and endpoint b registered", "first operation": repr(OPS[first])}))
    if not q:
        # thorough adds depth 4 for selected (first, second) pairs and depth 3 from two live registrations.  The full depth-4
        # sweep (every second operation for six first operations) needed more than three hours on 8 cores and was never seen
        # to finish; these slices were run end to end.
        for first, second in [(0, OPS.index(("post", 0, "120", False))), (9, OPS.index(("postx", 0, "note=world", None))),
                              (0, OPS.index(("putx", 0, "lt=soon")))]:
            obs.append(Obligation("history4-first%02d-second%02d" % (first, second), mk_history(first, 4, second, second + 1), 1500, functions=FUNCS,
                                  symbolic={"later operations": "2 indices over %d operations after the two fixed ones" % len(OPS), "time step of 'wait'": "[0,400] s"},
                                  concrete={"first operation": repr(OPS[first]), "second operation": repr(OPS[second])}))
        # depth 4 after (reg a lt=60, wait) and depth 3 from two registrations are not registered: their first run hit a false alarm
        # of the model (old location of a removed registration re-assigned to a newer one) and the corrected model was not re-run
    return obs
