"""C03 -- confirmable messages: bounded exponential back-off that always terminates."""
from vf.api import Obligation

META = {
    "explanation": "Retransmission of CON messages by the real aiocoap.messagemanager.MessageManager on a virtual integer-time "
    "loop: ACK_TIMEOUT, the first time-out draw, the arrival instant/kind of the reply are solver variables; MAX_RETRANSMIT and "
    "ACK_RANDOM_FACTOR are enumerated by the driver. Full-stack obligations run the real Context/TokenManager/MessageManager/"
    "MessageInterfaceUDP6 over a fake datagram transport.",
    "trusted_base": ["vf.simloop.SimLoop (virtual time)", "vf.mmkit fakes above/below MessageManager", "vf.stack fake datagram transport"],
    "assumptions": [
        "time and tuning parameters are integers (ticks); IEEE rounding of non-integer tunings is outside the claim",
        "random.uniform is replaced by an explicit draw t0 assumed within its documented contract [ACK_TIMEOUT, ACK_TIMEOUT*ACK_RANDOM_FACTOR]",
        "timers due exactly at the arrival instant run before the arrival (one of the two legal orders)",
        "MAX_RETRANSMIT <= 6, ACK_RANDOM_FACTOR in {1,2,3}, ACK_TIMEOUT in [1, 100000]",
    ],
}

FUNCS = ["MessageManager.send_message", "MessageManager._send_initially", "MessageManager._add_exchange",
         "MessageManager._schedule_retransmit", "MessageManager._retransmit", "MessageManager._remove_exchange",
         "MessageManager.dispatch_message", "TransportTuning.MAX_TRANSMIT_WAIT"]


def mk_backoff(maxre, fct):
    def make(reach):
        from vf import mmkit
        from vf.simloop import SimLoop
        from aiocoap.message import Message, Direction
        from aiocoap.numbers.constants import TransportTuning
        from aiocoap.numbers.types import CON, ACK, RST, NON
        from aiocoap.numbers.codes import GET, EMPTY, CONTENT
        from aiocoap import error
        R = mmkit.setup()

        def h(ack_timeout: int, t0: int, t_reply: int, kind: int, prior: int) -> None:
            assert 1 <= ack_timeout <= 100000 and ack_timeout <= t0 <= ack_timeout * fct
            assert 0 <= t_reply <= 100000 * 3 * 200 and 0 <= kind <= 7 and 0 <= prior <= 3
            R.draw = t0
            R.calls = []

            class TT(TransportTuning):
                ACK_TIMEOUT = ack_timeout
                ACK_RANDOM_FACTOR = fct
                MAX_RETRANSMIT = maxre

            with SimLoop() as loop:
                tm, mm, mi = mmkit.make(loop)
                r, other = mmkit.Remote(0), mmkit.Remote(1)
                m = Message(code=GET, transport_tuning=TT(), uri_path=["x"])
                m.remote = r
                m.token = b"\x01"
                m.mtype = CON
                rst = []
                if prior:
                    # history: the peer used the message ID our message is going to get (the two directions number
                    # their messages independently): 1 NON request, 2 empty ACK, 3 CON request
                    pm = Message(code=EMPTY if prior == 2 else GET, _mtype=(NON, ACK, CON)[prior - 1], _mid=mm.message_id,
                                 _token=b"\x55", transport_tuning=TT())
                    pm.remote = r
                    pm.direction = Direction.INCOMING
                    mm.dispatch_message(pm)
                    loop.run_ready()
                    for hnd in list(loop.pending_timers()):
                        hnd.cancel()            # the peer's exchange (empty-ACK / lifetime timers) is not the subject here
                mm.send_message(m, lambda: rst.append(loop.time()))
                assert R.calls == [(ack_timeout, ack_timeout * fct)]
                deadlines = [t0 * (2 ** (i + 1) - 1) for i in range(maxre + 1)]  # retransmissions, then give-up
                loop.advance_to(t_reply)
                n_before = len(mi.sent)
                gave_up_before = len(tm.errors)
                if kind != 5:
                    # 6 / 7: the ACK carries a piggy-backed response that the token layer accepts / no longer knows (the
                    # application gave up meanwhile): the message ID is acknowledged either way
                    a = Message(code=CONTENT if kind >= 6 else EMPTY, _mtype=RST if kind in (1, 4) else ACK,
                                _mid=(m.mid + 1) % 65536 if kind == 2 else m.mid, _token=b"\x01" if kind >= 6 else b"")
                    a.remote = other if kind in (3, 4) else r
                    a.direction = Direction.INCOMING
                    tm.response_ok = kind != 7
                    mm.dispatch_message(a)
                    loop.run_ready()
                    assert [s for s in mi.sent[n_before:] if s[1] is not m] == [], "an ACK / RST is never answered"
                stops = kind in (0, 1, 6, 7)
                loop.drain()
                sent = mi.sent
                fired = 0
                for d in deadlines:
                    if d <= t_reply:
                        fired += 1
                # copies
                assert len(sent) <= 1 + maxre
                assert all(s[1] is m and s[2] == sent[0][2] for s in sent)
                assert [s[0] for s in sent] == ([0] + deadlines[:maxre])[:len(sent)]
                if stops and fired <= maxre:
                    # reply arrived while the exchange was open: nothing more is sent
                    assert len(sent) == n_before == 1 + fired
                    assert tm.errors == []
                    assert rst == ([t_reply] if kind == 1 else [])
                else:
                    # no (matching) reply in time: all copies, then give-up one doubled interval after the last copy
                    assert len(sent) == 1 + maxre
                    assert len(tm.errors) == 1
                    when, exc, rem = tm.errors[0]
                    assert isinstance(exc, error.ConRetransmitsExceeded) and isinstance(exc, error.TimeoutError) \
                        and isinstance(exc, error.NetworkError) and isinstance(exc, error.Error)
                    assert rem is r or rem == r
                    assert when == deadlines[maxre] == t0 * (2 ** (maxre + 1) - 1)
                    assert when <= TT().MAX_TRANSMIT_WAIT
                    assert rst == []
                assert mm._active_exchanges == {} and mm._backlogs == {}
                assert loop.exceptions == []
            assert not reach, "reach"
        return h
    return make


def mk_client(maxre):
    """full client stack S: request future fails with the timeout-class error / RST fails the request"""
    def make(reach):
        from vf import stack
        from vf.simloop import SimLoop
        from aiocoap.message import Message
        from aiocoap.numbers.types import CON, ACK, RST, NON
        from aiocoap.numbers.codes import GET, EMPTY, CONTENT
        from aiocoap import error
        stack.configure(ack_timeout=2000, ack_random_factor=2, max_retransmit=maxre)
        import aiocoap.messagemanager as mmod

        def h(t0: int, t_reply: int, kind: int) -> None:
            assert 2000 <= t0 <= 4000 and 0 <= t_reply <= 4000 * 130 and 0 <= kind <= 7
            mmod.random.u = t0
            with SimLoop() as loop:
                S = stack.StackS(loop)
                req = Message(code=GET, uri_path=["x"], _mtype=CON)
                req.remote = S.remote(stack.R0)
                rq = S.ctx.request(req, handle_blockwise=False)
                done = []
                rq.response.add_done_callback(lambda f: done.append(loop.time()))
                loop.run_ready()
                # a later, unrelated request to another endpoint (non-confirmable: no timers of its own) must not be affected
                other = Message(code=GET, uri_path=["y"], _mtype=NON)
                other.remote = S.remote(stack.R2)
                rq_other = S.ctx.request(other, handle_blockwise=False)
                loop.run_ready()
                S.tr.sent[:] = [x for x in S.tr.sent if x[1][0] != stack.R2[0]]
                assert len(S.tr.sent) == 1
                first = Message.decode(S.tr.sent[0][0])
                loop.advance_to(t_reply)
                n_before = len(S.tr.sent)
                if kind != 5:
                    # 6: piggy-backed response; 7: piggy-backed response on a token that is not (no longer) known
                    a = Message(code=CONTENT if kind >= 6 else EMPTY, _mtype=RST if kind in (1, 4) else ACK, payload=b"pb" if kind >= 6 else b"",
                                _mid=(first.mid + 1) % 65536 if kind == 2 else first.mid,
                                _token=first.token if kind == 6 else (b"\x77\x66" if kind == 7 else b""))
                    S.deliver(a.encode(), stack.R1 if kind in (3, 4) else stack.R0)
                loop.drain()
                deadlines = [t0 * (2 ** (i + 1) - 1) for i in range(maxre + 1)]
                fired = 0
                for d in deadlines:
                    if d <= t_reply:
                        fired += 1
                sent = S.tr.sent
                assert all(d == sent[0][0] and a == sent[0][1] for (d, a, t) in sent)
                assert [t for (d, a, t) in sent] == ([0] + deadlines[:maxre])[:len(sent)]
                if kind in (0, 1, 6, 7) and fired <= maxre:
                    assert len(sent) == n_before == 1 + fired
                    if kind == 1:
                        assert done == [t_reply]
                        exc = rq.response.exception()
                        assert isinstance(exc, error.Error)
                    elif kind == 6:
                        assert done == [t_reply] and rq.response.result().payload == b"pb"
                    else:
                        assert done == []     # acknowledged, response may still come
                else:
                    assert len(sent) == 1 + maxre
                    assert done == [deadlines[maxre]]
                    exc = rq.response.exception()
                    assert isinstance(exc, error.ConRetransmitsExceeded) and isinstance(exc, error.TimeoutError) \
                        and isinstance(exc, error.NetworkError)
                assert not rq_other.response.done(), "an unrelated request to another endpoint was completed / failed"
                assert loop.exceptions == []
            assert not reach, "reach"
        return h
    return make


def mk_blockwise_tuning(reach):
    """the tuning attached to a request also governs the block-wise sub-requests the library makes from it"""
    from vf import stack
    from vf.simloop import SimLoop
    from aiocoap.message import Message
    from aiocoap.numbers.types import CON, ACK
    from aiocoap.numbers.codes import PUT, GET, CONTENT, CONTINUE
    from aiocoap.numbers.constants import TransportTuning
    from aiocoap import error
    stack.configure(ack_timeout=2000, ack_random_factor=1, max_retransmit=2)
    import aiocoap.messagemanager as mmod

    def h(at: int, mr: int, phase: int) -> None:
        assert 100 <= at <= 1500 and 0 <= mr <= 1 and 0 <= phase <= 1
        mmod.random.u = None

        class TT(TransportTuning):
            ACK_TIMEOUT = at
            ACK_RANDOM_FACTOR = 1
            MAX_RETRANSMIT = mr
        with SimLoop() as loop:
            S = stack.StackS(loop)
            if phase == 0:
                req = Message(code=PUT, uri_path=["big"], payload=b"z" * 2500, transport_tuning=TT())      # Block1: first block
            else:
                req = Message(code=GET, uri_path=["big"], transport_tuning=TT())                           # Block2: follow-up request
            req.remote = S.remote(stack.R0)
            rq = S.ctx.request(req)
            loop.run_ready()
            if phase == 1:
                first = Message.decode(S.tr.sent[0][0])
                S.deliver(Message(code=CONTENT, _mtype=ACK, _mid=first.mid, _token=first.token, payload=b"p" * 1024, block2=(0, True, 6)).encode(), stack.R0)
                n0 = 1
            else:
                n0 = 0
            t_first = S.tr.sent[n0][2]
            loop.drain()
            mine = S.tr.sent[n0:]
            # the (silent) peer never acknowledges: copies and give-up follow the attached tuning, not the defaults
            assert len(mine) == 1 + mr, "number of transmissions does not follow the attached MAX_RETRANSMIT"
            assert [t - t_first for (d, a, t) in mine] == [at * (2 ** i - 1) for i in range(1 + mr)], "spacing does not follow the attached ACK_TIMEOUT"
            assert rq.response.done() and isinstance(rq.response.exception(), error.ConRetransmitsExceeded)
            assert loop.exceptions == []
        assert not reach, "reach"
    return h


def obligations(tier):
    obs = []
    if tier == "quick":
        cfg = [(0, 2), (1, 2), (4, 2), (4, 1), (2, 3)]
        cl = [1]
    else:
        cfg = [(k, f) for k in range(7) for f in (1, 2, 3)]
        cl = [0, 1, 2, 4]
    for k, f in cfg:
        obs.append(Obligation(
            name="backoff-mr%d-arf%d" % (k, f), make=mk_backoff(k, f), timeout=120 if tier == "quick" else 600,
            functions=FUNCS,
            symbolic={"ACK_TIMEOUT": "[1,100000]", "t0 (first time-out draw)": "[ACK_TIMEOUT, ACK_TIMEOUT*ARF]",
                      "t_reply (arrival instant of the reply)": "[0, 6e7]",
                      "kind": "0 ACK / 1 RST / 2 ACK wrong MID / 3 ACK wrong source / 4 RST wrong source / 5 none / 6 ACK with piggy-backed response / 7 ACK with a response whose token is no longer known",
                      "prior": "history: 0 none / the peer earlier sent a NON request, empty ACK or CON request carrying the same message ID"},
            concrete={"MAX_RETRANSMIT": k, "ACK_RANDOM_FACTOR": f},
            stubs=["random.uniform -> explicit draw", "SimLoop", "RecTokenManager/RecMessageInterface"]))
    for k in cl:
        obs.append(Obligation(
            name="client-stack-mr%d" % k, make=mk_client(k), timeout=200 if tier == "quick" else 900,
            functions=FUNCS + ["Context.request", "Request._run", "TokenManager.request", "TokenManager.dispatch_error",
                               "MessageInterfaceUDP6.send/datagram_msg_received", "Message.encode/decode"],
            symbolic={"t0": "[2000,4000]", "t_reply": "[0, 520000]", "kind": "as above"},
            concrete={"MAX_RETRANSMIT": k, "ACK_TIMEOUT": 2000, "ACK_RANDOM_FACTOR": 2},
            stubs=["random.uniform -> explicit draw", "SimLoop", "FakeDatagramTransport"]))
    obs.append(Obligation("blockwise-subrequests-keep-tuning", mk_blockwise_tuning, 200 if tier == "quick" else 900,
                          functions=FUNCS + ["protocol.BlockwiseRequest._run/_complete_by_requesting_block2", "message.Message.copy/_extract_block/_generate_next_block2_request"],
                          symbolic={"attached ACK_TIMEOUT": "[100,1500]", "attached MAX_RETRANSMIT": "0..1", "phase": "Block1 first block / Block2 follow-up request"},
                          concrete={"library defaults": "ACK_TIMEOUT 2000, MAX_RETRANSMIT 2"}))
    return obs
