"""C19 -- the file server never touches anything outside its root directory."""
from vf.api import Obligation, pick

META = {
    "explanation": "The real FileServer (request_to_localpath, render_get/_dir/_file, render_put, render_delete, through "
    "render_to_pipe and the library's error rendering) runs against a throw-away directory tree that is re-created for every "
    "path; Uri-Path components are chosen by symbolic index over an alphabet of path-significant tokens (empty, '.', '..', "
    "embedded slash, NUL, names of files and directories inside the root, and the components of the sandbox's own absolute path "
    "and of sentinel files placed next to the root, incl. a sibling directory whose name starts with the root's name), combined "
    "with method, write permission and conditional options by index. Every path argument of the file-system calls made during "
    "the request (os.stat/lstat/open/scandir/listdir/rename/replace/unlink/mkdir/rmdir, io.open, temp-file creation) is "
    "intercepted and must resolve inside the root; the tree outside the root must be byte-identical afterwards, responses must "
    "not contain sentinel content, and without write permission the root is unchanged. Block-wise reads: file size, size "
    "exponent by index; concatenated blocks equal the file.",
    "trusted_base": ["real file system under a scratch directory below /tmp (removed afterwards)", "interception wrappers on os / io functions",
                     "tempfile name sequence replaced by a counter"],
    "assumptions": [
        "component alphabet of 17 tokens, 1..4 components; no symbolic links inside the tree",
        "validation predicate additionally with fully symbolic component strings (length <= 3)",
    ],
}

FUNCS = ["cli.fileserver.FileServer.request_to_localpath/render_get/render_get_dir/render_get_file/render_put/render_delete/needs_blockwise_assembly/hash_stat"]


class FakeRemote:
    scheme = "coap"
    hostinfo = "client.example"
    hostinfo_local = "srv.example"
    is_multicast = False
    is_multicast_locally = False
    maximum_block_size_exp = 6
    maximum_payload_size = 1124
    blockwise_key = ("R",)

    def as_response_address(self):
        return self


SECRET = b"TOP-SECRET-SENTINEL-CONTENT"


class Sandbox:
    """scratch/<root>/{f.txt, sub/g.txt, empty/}  scratch/outside.txt  scratch/<root>-private/secret.txt"""

    def __init__(self):
        import os
        import tempfile
        self.base = tempfile.mkdtemp(prefix="vf-c19-", dir="/tmp")
        self.root = os.path.join(self.base, "pub")
        self.build()

    def build(self, sizes=None):
        import os
        import shutil
        for n in os.listdir(self.base):
            p = os.path.join(self.base, n)
            shutil.rmtree(p) if os.path.isdir(p) else os.unlink(p)
        os.makedirs(os.path.join(self.root, "sub"))
        os.makedirs(os.path.join(self.root, "empty"))
        os.makedirs(os.path.join(self.base, "pub-private"))
        with open(os.path.join(self.root, "f.txt"), "wb") as f:
            f.write(b"file-f")
        with open(os.path.join(self.root, "sub", "g.txt"), "wb") as f:
            f.write(b"file-g")
        with open(os.path.join(self.base, "outside.txt"), "wb") as f:
            f.write(SECRET)
        with open(os.path.join(self.base, "pub-private", "secret.txt"), "wb") as f:
            f.write(SECRET)
        for name, size in (sizes or {}).items():
            with open(os.path.join(self.root, name), "wb") as f:
                f.write(bytes((i * 13 + 7) % 251 for i in range(size)))

    def snapshot(self, sub):
        import os
        out = {}
        top = os.path.join(self.base, sub) if sub else self.base
        for d, dirs, files in os.walk(top):
            if not sub and os.path.abspath(d).startswith(self.root + os.sep) or (not sub and os.path.abspath(d) == self.root):
                dirs[:] = []
                continue
            for n in dirs:
                out[os.path.join(d, n) + "/"] = None
            for n in files:
                with open(os.path.join(d, n), "rb") as f:
                    out[os.path.join(d, n)] = f.read()
        return out

    def cleanup(self):
        import shutil
        shutil.rmtree(self.base, ignore_errors=True)


class Intercept:
    """wraps the file-system entry points for the duration of a request and records every path argument"""
    NAMES = ["stat", "lstat", "open", "scandir", "listdir", "rename", "replace", "unlink", "remove", "mkdir", "rmdir", "chmod", "link", "symlink"]

    def __init__(self, root):
        import os
        self.root = os.path.realpath(root)
        self.touched = []
        self.outside = []
        self.saved = {}
        self.busy = False

    def note(self, p):
        import os
        if isinstance(p, int) or self.busy:
            return
        self.busy = True
        try:
            self._note(p)
        finally:
            self.busy = False

    def _note(self, p):
        import os
        import sys
        # only calls made on behalf of the file server count (the symbolic-execution engine and the import system also
        # stat files while a path is being explored)
        f = sys._getframe(2)
        from_server = False
        while f is not None:
            fn = f.f_code.co_filename
            if fn.endswith("aiocoap/cli/fileserver.py"):
                from_server = True
                break
            if not (fn.endswith(("/pathlib.py", "/tempfile.py", "/posixpath.py", "/genericpath.py", "/os.py", "/shutil.py", "/vf/props/c19.py"))
                    or fn.startswith("<frozen")):
                break           # reached through something else (engine instrumentation, inspect, linecache, logging ...)
            f = f.f_back
        if not from_server:
            return
        try:
            s = os.fspath(p)
        except TypeError:
            return
        if isinstance(s, bytes):
            s = s.decode("utf8", "surrogateescape")
        if "\0" in s:
            return                  # the OS refuses such paths before touching anything
        rp = os.path.realpath(os.path.abspath(s))
        self.touched.append(rp)
        if not (rp == self.root or rp.startswith(self.root + os.sep)):
            self.outside.append(rp)

    def __enter__(self):
        import os
        import io
        for n in self.NAMES:
            orig = getattr(os, n)
            self.saved[n] = orig

            def wrapper(*a, _orig=orig, _n=n, **k):
                if a:
                    self.note(a[0])
                if _n in ("rename", "replace", "link", "symlink") and len(a) > 1:
                    self.note(a[1])
                return _orig(*a, **k)
            setattr(os, n, wrapper)
        self.saved_io_open = io.open

        def io_open(file, *a, **k):
            self.note(file)
            return self.saved_io_open(file, *a, **k)
        io.open = io_open
        return self

    def __exit__(self, *exc):
        import os
        import io
        for n, orig in self.saved.items():
            setattr(os, n, orig)
        io.open = self.saved_io_open


def _kit():
    import logging
    import tempfile
    from vf.simloop import SimLoop
    from aiocoap.message import Message, Direction
    from aiocoap.pipe import Pipe, run_driving_pipe, error_to_message
    from aiocoap.numbers.codes import Code
    from aiocoap.numbers.optionnumbers import OptionNumber
    from aiocoap.numbers.contentformat import ContentFormat
    for i in range(256):
        Code(i)
        ContentFormat(i)
    for i in range(64):
        OptionNumber(i)
    LOG = logging.getLogger("vf-null")
    counter = [0]

    def names():
        while True:
            counter[0] += 1
            yield "vftmp%06d" % counter[0]
    tempfile._get_candidate_names = lambda: names()

    def serve(loop, res, req):
        req.direction = Direction.INCOMING
        req.remote = FakeRemote()
        pipe = Pipe(req, LOG)
        out = []
        pipe.on_event(lambda ev: (out.append(ev), True)[1])
        run_driving_pipe(error_to_message(pipe, LOG), res.render_to_pipe(pipe))
        loop.run_ready()
        assert len(out) == 1 and out[0].message is not None
        return out[0].message
    return SimLoop, Message, LOG, serve


def mk_confine(ncomp, method, write):
    def make(reach):
        import os
        import atexit
        from pathlib import Path
        SimLoop, Message, LOG, serve = _kit()
        from aiocoap.cli.fileserver import FileServer
        from aiocoap.numbers.codes import GET, PUT, DELETE
        SB = Sandbox()
        atexit.register(SB.cleanup)
        base_parts = [p for p in SB.base.split("/") if p]           # e.g. ['tmp', 'vf-c19-xxxx']
        if ncomp <= 2:
            ALPHA = ["", ".", "..", "a", "sub", "a/b", "f.txt", "g.txt", "\0", "~", "é", "outside.txt", "pub-private", "secret.txt", "pub", "empty"] + base_parts
            NCOND = 5 if method == "GET" else 4
        else:
            ALPHA = ["", "..", "sub", "f.txt", "outside.txt", "pub-private", "secret.txt", "pub"] + base_parts
            NCOND = 1
        CODE = {"GET": GET, "PUT": PUT, "DELETE": DELETE}[method]

        def h(c1: int, c2: int, c3: int, c4: int, cond: int) -> None:
            assert all(0 <= x < len(ALPHA) for x in (c1, c2, c3, c4)) and 0 <= cond < NCOND
            assert (ncomp >= 1 or c1 == 0) and (ncomp >= 2 or c2 == 0) and (ncomp >= 3 or c3 == 0) and (ncomp >= 4 or c4 == 0)
            assert ncomp < 4 or c1 == 0         # four components: the absolute-path attempts (leading empty component)
            comps = [pick(ALPHA, x) for x in (c1, c2, c3, c4)[:ncomp]]
            SB.build()
            before_out = SB.snapshot(None)
            before_root = SB.snapshot("pub")
            with SimLoop() as loop:
                fs = FileServer(Path(SB.root), LOG, write=write)
                req = Message(code=CODE, uri_path=comps, payload=b"new-content" if method == "PUT" else b"")
                cnd = pick([0, 1, 2, 3, 4], cond)
                if cnd == 4:
                    req.opt.observe = 0            # observation registration goes through request_to_localpath as well
                elif cnd == 1:
                    req.opt.if_none_match = True
                elif cnd == 2:
                    req.opt.if_match = [b"\\x00" * 8]
                elif cnd == 3:
                    req.opt.etags = [b"\\x01" * 8]
                with Intercept(SB.root) as ic:
                    resp = serve(loop, fs, req)
                assert ic.outside == [], "file-system object outside the root was accessed"
                assert SB.snapshot(None) == before_out, "something outside the root was modified"
                assert SECRET not in resp.payload, "content from outside the root was served"
                after_root = SB.snapshot("pub")
                if not write or method == "GET":
                    assert after_root == before_root, "file system modified without write permission / by a GET"
                if resp.code.class_ != 2:
                    assert after_root == before_root, "request answered with an error must have no effect"
                # not vacuous: plain requests for what exists inside are served
                if comps == ["f.txt"] and method == "GET" and cnd in (0, 1, 2, 4):
                    assert int(resp.code) == 69 and resp.payload == b"file-f"
                if comps == ["sub", "g.txt"] and method == "GET" and cnd == 0:
                    assert resp.payload == b"file-g"
                if comps == ["a"] and method == "PUT" and write and cnd in (0, 1):
                    assert int(resp.code) == 68 and after_root[os.path.join(SB.root, "a")] == b"new-content"
                if comps == ["f.txt"] and method == "DELETE" and write and cnd == 0:
                    assert int(resp.code) == 66 and os.path.join(SB.root, "f.txt") not in after_root
                assert loop.exceptions == []
            assert not reach, "reach"
        return h
    return make


def mk_predicate(n):
    """request_to_localpath with fully symbolic component strings: whatever is accepted is a relative path without slash-carrying
    or dot components (the composition with pathlib is covered by the alphabet obligations)"""
    def make(reach):
        from aiocoap.cli.fileserver import FileServer
        from aiocoap import error

        class Root:
            def __truediv__(self, other):
                return ("JOINED", other)

        class Req:
            class opt:
                uri_path = ()

        def h(a: str, b: str, c: str) -> None:
            assert len(a) <= 3 and len(b) <= 3 and len(c) <= 3
            comps = (a, b, c)[:n]
            fs = FileServer.__new__(FileServer)
            fs.root = Root()
            Req.opt.uri_path = comps
            try:
                p = fs.request_to_localpath(Req)
            except error.ConstructionRenderableError:
                p = None
            if p is not None:
                assert p[0] == "JOINED"
                assert all("/" not in x and x != "." and x != ".." for x in comps), "component with slash or dot segment accepted"
                assert not p[1].startswith("/"), "accepted components join to an absolute path"
                assert p[1] == "/".join(comps)
            else:
                assert any("/" in x or x == "." or x == ".." for x in comps) or (comps[0] == "" and n > 1), "harmless path rejected"
            assert not reach, "reach"
        return h
    return make


def mk_blockread(reach):
    import os
    import atexit
    from pathlib import Path
    SimLoop, Message, LOG, serve = _kit()
    from aiocoap.cli.fileserver import FileServer
    from aiocoap.numbers.codes import GET, CONTENT
    SIZES = [0, 1, 15, 16, 17, 31, 33, 1023, 1024, 1025, 2047, 2049, 3073]
    SB = Sandbox()
    atexit.register(SB.cleanup)
    SB.build({"s%d.bin" % i: sz for i, sz in enumerate(SIZES)})
    CONTENTS = {}
    for i, sz in enumerate(SIZES):
        with open(os.path.join(SB.root, "s%d.bin" % i), "rb") as f:
            CONTENTS[i] = f.read()

    def h(si: int, szx: int, plain: bool) -> None:
        assert 0 <= si < len(SIZES) and 0 <= szx <= 7
        i = pick(list(range(len(SIZES))), si)
        sx = pick(list(range(8)), szx)
        size = 2 ** (min(sx, 6) + 4)      # exponent 7 (the BERT value of RFC 8323) addresses 1024-byte blocks
        body = CONTENTS[i]
        with SimLoop() as loop:
            fs = FileServer(Path(SB.root), LOG, write=False)
            got = b""
            num = 0
            while True:
                req = Message(code=GET, uri_path=["s%d.bin" % i])
                if not (plain and num == 0):
                    req.opt.block2 = (num, False, sx)
                    bsize = size
                else:
                    bsize = 1024
                resp = serve(loop, fs, req)
                if num * bsize >= len(body) and num > 0:
                    break
                assert resp.code == CONTENT
                got += resp.payload
                b2 = resp.opt.block2
                more = b2 is not None and bool(b2.more)
                assert more == (len(got) < len(body)), "more-flag must be set exactly when bytes remain"
                if b2 is not None:
                    assert b2.block_number == num
                if not more:
                    break
                if plain and num == 0:
                    # continue with the size the server used
                    sx_used = b2.size_exponent
                    assert sx_used == 6
                    num = 1
                    sx, size = 6, 1024
                    continue
                num += 1
                assert num < 400
            assert got == body, "file fetched block by block differs from its content"
        assert not reach, "reach"
    return h


def obligations(tier):
    q = tier == "quick"
    obs = []
    for n in (1, 2, 3):
        obs.append(Obligation("predicate-%dcomp" % n, mk_predicate(n), 280 if q else 900, functions=FUNCS,
                              symbolic={"components": "%d symbolic strings of length <= 3" % n}, stubs=["root object that records the joined string (no pathlib)"]))
    shapes = [(0, "PUT", True), (0, "DELETE", True), (0, "GET", False), (1, "PUT", True), (1, "DELETE", True), (1, "GET", False), (2, "GET", False), (3, "GET", True), (2, "PUT", True), (2, "DELETE", True), (2, "PUT", False), (3, "PUT", True), (3, "DELETE", True)]
    if not q:
        shapes += [(4, "GET", False), (4, "PUT", True), (4, "DELETE", True), (3, "DELETE", False)]
    for ncomp, method, write in shapes:
        obs.append(Obligation("confine-%s-%dcomp-%s" % (method.lower(), ncomp, "write" if write else "ro"), mk_confine(ncomp, method, write),
                              280 if q else 3000, functions=FUNCS,
                              symbolic={"components": "%d x index over %s tokens (incl. '', '..', embedded slash / NUL / '.' for <= 2 components, sandbox path components, sentinel names)" % (ncomp, "18" if ncomp <= 2 else "10"),
                                        "conditional option": "none / If-None-Match / If-Match / ETag / Observe (GET)" if ncomp <= 2 else "none"},
                              concrete={"method": method, "write enabled": write},
                              stubs=["scratch tree under /tmp re-created per path", "os/io interception", "tempfile names from a counter"]))
    obs.append(Obligation("block-reads", mk_blockread, 280 if q else 900, functions=FUNCS,
                          symbolic={"file size": "index over 13 boundary sizes", "size exponent": "0..7 (7 = BERT value, 1024-byte blocks)", "first request without Block2": "bool"}))
    return obs
