"""C11 -- OSCORE: round trip, inner data hidden, responses bound, tampering detected."""
from vf.api import Obligation, pick

META = {
    "explanation": "protect/unprotect, option compression, AAD and nonce construction of aiocoap.oscore run over ideal-primitive "
    "stand-ins (AEAD = table of produced encryptions; decrypt succeeds iff exactly that (key, nonce, AAD, ciphertext) was "
    "produced), so that 'tampering detected / response bound to its request / inner data hidden' reduce to what aiocoap's own "
    "code puts into key, nonce, AAD and the outer message. Message shapes, identifier lengths, sequence-number classes and "
    "tamper positions are chosen by symbolic index, payload and option bytes are symbolic; _construct_nonce is translated to "
    "z3 bit-vectors and shown injective in (partial IV, sender id) and equal to the RFC 8613 5.2 layout.",
    "trusted_base": ["vf/oscstubs.py: ideal AEAD, random-oracle HKDF, injective CBOR encoder", "vf/pysym.py translator"],
    "assumptions": [
        "ideal cryptography (real AES-CCM/HKDF are outside any solver's reach and not installed here)",
        "group / countersignature modes outside; algorithm AES-CCM-16-64-128 (13-byte nonce) and, for the nonce, 7- and 12-byte IVs",
        "sequence numbers by index over the byte-length boundaries {0,255,256,65535,65536,2^24-1,2^24,2^32-1,2^32,2^40-2}",
    ],
}

SEQS = [0, 255, 256, 65535, 65536, 2 ** 24 - 1, 2 ** 24, 2 ** 32 - 1, 2 ** 32, 2 ** 40 - 2]
IDS = [(b"\x01", b""), (b"", b"\x01"), (b"\x0a\x0b", b"\x0c"), (b"1234567", b"7654321"), (b"\x00", b"\x00\x00")]
CTXS = [None, b"", b"\x0a\x0b", b"12345678"]
# (ids index, id-context index) profiles used by the composite obligations (pairwise cover of id lengths x context kinds)
PROFILES = [(0, 0), (1, 2), (2, 1), (3, 3), (4, 0), (2, 3)]
SEQS5 = [0, 256, 65536, 2 ** 24, 2 ** 32]      # one per partial-IV length 1..5


def _reqs():
    from vf.osckit import Message
    from aiocoap.numbers.codes import GET, POST, PUT, DELETE, FETCH
    # (builder, observe?) -- inner request shapes
    return [
        lambda p: Message(code=GET, uri_path=["a"]),
        lambda p: Message(code=POST, uri_path=["a", "b"], uri_query=["x=1"], payload=p, content_format=0),
        lambda p: Message(code=PUT, uri_path=[""], payload=p),
        lambda p: Message(code=DELETE),
        lambda p: Message(code=GET, uri_path=["o"], observe=0),
        lambda p: Message(code=FETCH, uri_path=["f"], payload=p, uri_host="example.com"),
        lambda p: Message(code=GET, uri_path=["h"], uri_host="h.example", uri_port=1234, accept=60, etag=b"ab"),
    ]


def _resps():
    from vf.osckit import Message
    from aiocoap.numbers.codes import CONTENT, CHANGED, NOT_FOUND, CREATED, INTERNAL_SERVER_ERROR
    return [
        lambda p: Message(code=CONTENT, payload=p, content_format=0),
        lambda p: Message(code=CHANGED),
        lambda p: Message(code=NOT_FOUND, payload=p),
        lambda p: Message(code=CREATED, location_path=["n", "1"]),
        lambda p: Message(code=INTERNAL_SERVER_ERROR),
        lambda p: Message(code=CONTENT, payload=p, etag=b"\x01", max_age=5),
    ]


OUTER_ONLY = (3, 7, 35, 39)     # Uri-Host, Uri-Port, Proxy-Uri, Proxy-Scheme (class U)
OUTER_ALLOWED = (9, 3, 7, 35, 39, 6)


def mk_roundtrip(plen, qi):
    def make(reach):
        from vf import osckit
        from vf.osckit import o, Message, incoming, inner_fields
        REQS, RESPS = _reqs(), _resps()

        def h(ri: int, pi: int, si: int, pay: bytes, rpay: bytes) -> None:
            assert 0 <= ri < len(RESPS) and 0 <= pi < len(PROFILES) and 0 <= si < len(SEQS)
            assert len(pay) == plen and len(rpay) == plen
            ii, ci = pick(PROFILES, pi)
            osckit.oscstubs.ORACLE.reset()
            a, b = osckit.pair(IDS[ii][0], IDS[ii][1], CTXS[ci])
            seq = pick(SEQS, si)
            a.sender_sequence_number = seq
            req = REQS[qi](pay)
            want = inner_fields(req)
            want = (want[0], want[1], [x for x in want[2] if x[0] not in OUTER_ONLY and not (x[0] == 6)])
            outer, rid = a.protect(req)
            # hiding: fixed outer code, only routing/OSCORE/Observe options outside, payload = the AEAD output
            assert int(outer.code) == (5 if req.opt.observe is not None else 2)
            assert all(int(x.number) in OUTER_ALLOWED for x in outer.opt.option_list())
            assert outer.opt.uri_host == req.opt.uri_host
            tab = osckit.oscstubs.ORACLE.table
            assert len(tab) == 1 and tab[0][3] == outer.payload
            pt = tab[0][4]
            assert pt[0] == int(req.code)
            # the sequence number travels as minimal-length partial IV
            piv = seq.to_bytes(5, "big").lstrip(b"\0") or b"\0"
            assert rid.partial_iv == piv and rid.kid == a.sender_id
            got, rid_b = b.unprotect(incoming(outer))
            gf = inner_fields(got)
            assert (gf[0], gf[1], [x for x in gf[2] if x[0] != 6]) == want
            assert (got.opt.observe == 0) == (req.opt.observe == 0)
            assert rid_b.partial_iv == piv and rid_b.kid == a.sender_id
            # response
            resp = pick(RESPS, ri)(rpay)
            wantr = inner_fields(resp)
            outer_r, _ = b.protect(resp, rid_b)
            assert int(outer_r.code) == (69 if req.opt.observe is not None else 68)     # 2.05 / 2.04
            assert all(int(x.number) in OUTER_ALLOWED for x in outer_r.opt.option_list())
            assert len(tab) == 2 and tab[1][3] == outer_r.payload and tab[1][4][0] == int(resp.code)
            gotr, _ = a.unprotect(incoming(outer_r), rid)
            gfr = inner_fields(gotr)
            assert (gfr[0], gfr[1], [x for x in gfr[2] if x[0] != 6]) == wantr
            assert not reach, "reach"
        return h
    return make


def mk_binding(reach):
    """a response verifies only with the identifiers of the request it answers"""
    from vf import osckit
    from vf.osckit import o, Message, incoming
    from aiocoap.numbers.codes import GET, CONTENT

    SEQB = [0, 1, 255, 256, 2 ** 32]

    def h(pi: int, s1: int, s2: int, own_piv: bool) -> None:
        assert 0 <= pi < len(PROFILES) and 0 <= s1 < len(SEQB) and 0 <= s2 < len(SEQB) and s1 != s2
        ii, ci = pick(PROFILES, pi)
        osckit.oscstubs.ORACLE.reset()
        a, b = osckit.pair(IDS[ii][0], IDS[ii][1], CTXS[ci])
        a.sender_sequence_number = pick(SEQB, s1)
        o1, rid1 = a.protect(Message(code=GET, uri_path=["one"]))
        a.sender_sequence_number = pick(SEQB, s2)
        o2, rid2 = a.protect(Message(code=GET, uri_path=["two"]))
        if s1 > s2:
            b.recipient_replay_window.initialize_empty()
        g1, rb1 = b.unprotect(incoming(o1))
        if own_piv:
            rb1.can_reuse_nonce = False          # server uses an own partial IV (as for notifications)
        resp1, _ = b.protect(Message(code=CONTENT, payload=b"for-one"), rb1)
        # against its own request it verifies
        got, _ = a.unprotect(incoming(resp1), rid1)
        assert got.payload == b"for-one"
        # against the other request it must not
        ok = False
        try:
            a.unprotect(incoming(resp1), rid2)
        except o.ProtectionInvalid:
            ok = True
        except Exception:
            ok = False
        assert ok, "response verified against a foreign request"
        assert not reach, "reach"
    return h


def mk_tamper(where, response, pi):
    def make(reach):
        from vf import osckit
        from vf.osckit import o, Message, incoming, inner_fields
        from aiocoap.numbers.codes import GET, CONTENT

        ii, ci = PROFILES[pi]     # concrete per obligation
        SEQS = SEQS5

        def h(si: int, pos: int, val: int) -> None:
            assert 0 <= si < len(SEQS) and 0 <= pos < 20 and 0 <= val < 11
            osckit.oscstubs.ORACLE.reset()
            a, b = osckit.pair(IDS[ii][0], IDS[ii][1], CTXS[ci])
            seq = pick(SEQS, si)
            a.sender_sequence_number = seq
            req = Message(code=GET, uri_path=["x"], payload=b"hi")
            outer, rid = a.protect(req)
            if response:
                g, rb = b.unprotect(incoming(outer))
                rb.can_reuse_nonce = False
                b.sender_sequence_number = seq
                outer, _ = b.protect(Message(code=CONTENT, payload=b"yo"), rb)
                receiver, rid_use = a, rid
            else:
                receiver, rid_use = b, None
            m = incoming(outer)
            genuine = outer
            orig_inner = (1, b"hi") if not response else (69, b"yo")
            data = m.opt.oscore if where == "option" else m.payload
            strong = True
            if val == 4:
                # structural: truncate at pos / for the option also: kid emptied with the k flag kept
                if pos >= len(data):
                    return
                new = data[:pos]
                strong = where == "payload"
            else:
                if pos >= len(data):
                    return
                nv = [data[pos] ^ 1, data[pos] ^ 0x80, 0, 255, 4, data[pos] ^ 0x20, data[pos] ^ 0x10, data[pos] ^ 0x08, data[pos] ^ 2, data[pos] ^ 4, data[pos] ^ 0x40][val]
                if nv == data[pos]:
                    return
                new = data[:pos] + bytes([nv]) + data[pos + 1:]
                if where == "option" and pos == 0:
                    strong = False          # flag bits that merely omit a field equal to the context's value: RFC 8613 does
                                            # not authenticate the option itself; then only the identical message may come out
            if where == "option":
                m.opt.oscore = new
            else:
                m.payload = new
            verdict = None
            try:
                got, _ = receiver.unprotect(m, rid_use)
                verdict = "message"
            except o.ProtectionInvalid:
                verdict = "protection-error"
            except Exception:
                verdict = "other-exception"
            assert verdict != "other-exception", "only protection errors may leave unprotect on tampered input"
            if strong:
                assert verdict == "protection-error", "tampered message was accepted"
            elif verdict == "message":
                assert (int(got.code), got.payload) == orig_inner
            if verdict == "protection-error":
                # a rejected manipulation leaves no trace: the genuine message (same partial IV) still unprotects afterwards
                try:
                    got2, _ = receiver.unprotect(incoming(genuine), rid_use)
                except o.ProtectionInvalid:
                    got2 = None
                assert got2 is not None and (int(got2.code), got2.payload) == orig_inner, \
                    "after a rejected manipulated copy the genuine message is no longer accepted (state updated before verification)"
            assert not reach, "reach"
        return h
    return make


def mk_kid_semantic(reach):
    """field-level manipulations of key ID / ID context / partial IV that keep the option well-formed"""
    from vf import osckit
    from vf.osckit import o, Message, incoming
    from aiocoap.numbers.codes import GET

    def h(pi: int, si: int, op: int) -> None:
        assert 0 <= pi < len(PROFILES) and 0 <= si < len(SEQS5) and 0 <= op < 11
        ii, ci = pick(PROFILES, pi)
        osckit.oscstubs.ORACLE.reset()
        a, b = osckit.pair(IDS[ii][0], IDS[ii][1], CTXS[ci])
        a.sender_sequence_number = pick(SEQS5, si)
        outer, rid = a.protect(Message(code=GET, uri_path=["x"], payload=b"hi"))
        m = incoming(outer)
        piv = rid.partial_iv
        kid = a.sender_id
        ctx = CTXS[ci]
        nkid, nctx, npiv = kid, ctx, piv
        if op == 0:
            if kid == b"":
                return
            nkid = b""                                  # key ID emptied, k flag kept
        elif op == 1:
            nkid = kid + b"\x00"
        elif op == 2:
            nkid = b"\x00" + kid
        elif op == 3:
            if ctx is None:
                nctx = b"\x77"                          # ID context added
            else:
                nctx = ctx + b"\x00"
        elif op == 4:
            if not ctx:
                return
            nctx = ctx[:-1]
        elif op == 5:
            npiv = b"\x00" + piv if len(piv) < 5 else piv[1:]       # same number, other length / other number
        elif op == 6:
            npiv = (int.from_bytes(piv, "big") ^ 1).to_bytes(len(piv), "big")
        elif op == 7:
            if ctx is None or ctx == b"":
                return
            nctx = b""
        elif op == 8:
            npiv = b"\x00" * (6 - len(piv)) + piv         # reserved length 6 (RFC 8613 6.1), same number
        elif op == 9:
            npiv = b"\x00" * (7 - len(piv)) + piv         # reserved length 7
        else:
            npiv = b""                                    # partial IV removed from a request
        first = len(npiv) | 8 | (16 if nctx is not None else 0)
        m.opt.oscore = bytes([first]) + npiv + (bytes([len(nctx)]) + nctx if nctx is not None else b"") + nkid
        ok = False
        try:
            b.unprotect(m)
        except o.ProtectionInvalid:
            ok = True
        except Exception:
            ok = False
        assert ok, "manipulated key ID / ID context / partial IV was accepted (or a non-protection exception escaped)"
        assert not reach, "reach"
    return h


def mk_proxy_uri(reach):
    """requests that carry Proxy-Uri: RFC 8613 4.1.3.3 splits it into outer Proxy-Scheme/Uri-Host/Uri-Port and inner
    Uri-Path/Uri-Query.  Known finding D12 on this tree: protect() raises IncompleteUrlError."""
    from vf import osckit
    from vf.osckit import o, Message, incoming
    from aiocoap.numbers.codes import GET
    URIS = ["coap://example.com/a/b?x=1", "coap://example.com", "coap://[2001:db8::1]:61616/p"]
    WANT = [(("a", "b"), ("x=1",)), ((), ()), (("p",), ())]

    def h(ui: int) -> None:
        assert 0 <= ui < len(URIS)
        uri = pick(URIS, ui)
        osckit.oscstubs.ORACLE.reset()
        a, b = osckit.pair()
        outer, rid = a.protect(Message(code=GET, proxy_uri=uri))
        assert all(int(x.number) in OUTER_ALLOWED for x in outer.opt.option_list())
        got, _ = b.unprotect(incoming(outer))
        assert (got.opt.uri_path, got.opt.uri_query) == pick(WANT, ui) and int(got.code) == 1
        assert not reach, "reach"
    return h


def mk_foreign_keys(reach):
    from vf import osckit
    from vf.osckit import o, Message, incoming
    from aiocoap.numbers.codes import GET

    def h(ii: int, ci: int, which: int) -> None:
        assert 0 <= ii < len(IDS) and 0 <= ci < len(CTXS) and 0 <= which < 3
        osckit.oscstubs.ORACLE.reset()
        ii, ci = pick(list(range(len(IDS))), ii), pick(list(range(len(CTXS))), ci)
        a, b = osckit.pair(IDS[ii][0], IDS[ii][1], CTXS[ci])
        # another context with the same identifiers but other key material
        kw = [dict(secret=b"other"), dict(salt=b"other"), dict(secret=b"secret", salt=b"salt")][which]
        if which == 2:
            a2, b2 = osckit.pair(IDS[ii][0], IDS[ii][1], b"other-ctx")     # same secrets, other ID context -> other keys
            b2.id_context = CTXS[ci]
        else:
            a2, b2 = osckit.pair(IDS[ii][0], IDS[ii][1], CTXS[ci], **kw)
        outer, rid = a.protect(Message(code=GET, uri_path=["x"]))
        ok = False
        try:
            b2.unprotect(incoming(outer))
        except o.ProtectionInvalid:
            ok = True
        except Exception:
            ok = False
        assert ok, "message verified with another context's keys"
        assert not reach, "reach"
    return h


def mk_uncompress(L):
    def make(reach):
        from vf import osckit
        from vf.osckit import o

        def h(data: bytes) -> None:
            assert len(data) == L
            ok = True
            try:
                r = o.CanUnprotect._uncompress(data, b"payload")
            except o.DecodeError:
                r = None
            except Exception:
                ok = False
            assert ok, "only DecodeError may leave the option decoder"
            if r is not None and L > 0:
                # RFC 8613 6.1 layout
                first = data[0]
                n = first & 7
                un = r[2]
                assert first & 0xC0 == 0 and n <= 5 or n in (6, 7)
                if n:
                    assert un[o.COSE_PIV] == data[1:1 + n]
                assert (o.COSE_KID in un) == bool(first & 8)
                assert (o.COSE_KID_CONTEXT in un) == bool(first & 16)
                assert r[3] == b"payload" and r[0] == b"" and r[1] == {}
            assert not reach, "reach"
        return h
    return make


def mk_compress_roundtrip(reach):
    from vf import osckit
    from vf.osckit import o

    def h(seq: int, kid: bytes, has_kid: bool, ci: int) -> None:
        assert 0 <= seq < 2 ** 40 and len(kid) == 2 and 0 <= ci < len(CTXS)
        ci = pick(list(range(len(CTXS))), ci)
        piv = seq.to_bytes(5, "big").lstrip(b"\0") or b"\0"
        assert int.from_bytes(piv, "big") == seq and (len(piv) == 1 or piv[0] != 0)
        un = {o.COSE_PIV: piv}
        if has_kid:
            un[o.COSE_KID] = kid
        if CTXS[ci] is not None:
            un[o.COSE_KID_CONTEXT] = CTXS[ci]
        want = dict(un)
        opt, body = o.CanProtect._compress({}, un, b"ct")
        back = o.CanUnprotect._uncompress(opt, body)
        assert back[2] == want and back[3] == b"ct"
        assert not reach, "reach"
    return h


def mk_nonce_e2(ivlen):
    """E2: _construct_nonce from the repository source; layout per RFC 8613 5.2 and injectivity in (partial IV, id)"""
    def make(reach):
        import z3
        from vf import pysym

        def pad_list(n):
            return [z3.BitVecVal(0, 8)] * n

        def solve(reach):
            src = __import__("vf.api", fromlist=["x"]).repo_source("aiocoap/oscore.py")

            def h_len(I, p, x):
                return len(x)

            def h_bytes(I, p, x):
                return [z3.BitVecVal(v, 8) if isinstance(v, int) else v for v in x]

            def h_xor(I, p, a, b):
                assert len(a) == len(b)
                return [x ^ y for x, y in zip(a, b)]
            hooks = {"len": h_len, "bytes": h_bytes, "_xor_bytes": h_xor,
                     "_alglog.debug": lambda I, p, *a, **k: None}
            failures, unknown, reach_ok, npaths, nq = [], 0, False, 0, 0
            I = None
            for pl in range(1, 6):
                for il in range(0, ivlen - 5):
                    I = I2 = pysym.Interp(src, "BaseSecurityContext", width=64, hooks=hooks) if I is None else I
                    civ = pysym.sym_bytes("civ", ivlen)
                    res = []
                    for tag in ("A", "B"):
                        piv = pysym.sym_bytes("piv%s" % tag, pl)
                        sid = pysym.sym_bytes("id%s" % tag, il)
                        fn = I.methods["_construct_nonce"]
                        # interpret the body with list-valued locals; debug logging and slicing handled by hooks/expr
                        p = pysym.Path(z3.BoolVal(True), {"common_iv": civ}, {"partial_iv_short": piv, "piv_generator_id": sid,
                                                                             "alg": None}, [])
                        outs = run_body(I, fn, p, ivlen)
                        assert len(outs) == 1
                        res.append((piv, sid, outs[0]))
                        npaths += 1
                    (pa, ia, na), (pb, ib, nb) = res
                    # layout: nonce XOR common IV == len(id) || zero pad || id || zero pad || piv
                    comp = [z3.BitVecVal(il, 8)] + pad_list(ivlen - 6 - il) + ia + pad_list(5 - pl) + pa
                    lay = z3.And(*[n ^ c == k for n, c, k in zip(na, civ, comp)]) if len(na) == ivlen else z3.BoolVal(False)
                    r, s = I.check(z3.Not(lay))
                    if r == z3.sat:
                        failures.append(("nonce layout differs from RFC 8613 5.2", {"piv_len": pl, "id_len": il}))
                    elif r != z3.unsat:
                        unknown += 1
                    same_in = z3.And(*[x == y for x, y in zip(pa + ia, pb + ib)]) if (pl + il) else z3.BoolVal(True)
                    same_out = z3.And(*[x == y for x, y in zip(na, nb)])
                    r, s = I.check(same_out, z3.Not(same_in))
                    reach_ok = True
                    if r == z3.sat:
                        failures.append(("two different (partial IV, id) pairs give the same nonce", {"piv_len": pl, "id_len": il}))
                    elif r != z3.unsat:
                        unknown += 1
            return pysym.finish(I, failures, reach, reach_ok, npaths, unknown)

        def run_body(I, fn, p, ivlen):
            """straight-line interpretation of _construct_nonce with byte lists"""
            import ast

            class AlgStub:
                iv_bytes = ivlen

            def ev(e):
                if isinstance(e, ast.BinOp) and isinstance(e.op, ast.Mult):
                    l, r = ev(e.left), ev(e.right)
                    if isinstance(l, list) and isinstance(r, int):
                        return l * r
                    return l * r
                if isinstance(e, ast.BinOp) and isinstance(e.op, ast.Add):
                    l, r = ev(e.left), ev(e.right)
                    return l + r
                if isinstance(e, ast.BinOp) and isinstance(e.op, ast.Sub):
                    return ev(e.left) - ev(e.right)
                if isinstance(e, ast.Constant):
                    if isinstance(e.value, bytes):
                        return [z3.BitVecVal(b, 8) for b in e.value]
                    return e.value
                if isinstance(e, ast.Name):
                    return p.local[e.id]
                if isinstance(e, ast.Attribute):
                    if isinstance(e.value, ast.Name) and e.value.id == "self":
                        return p.state[e.attr]
                    if isinstance(e.value, ast.Name) and e.value.id == "alg" and e.attr == "iv_bytes":
                        return ivlen
                    raise pysym.Untranslatable(ast.dump(e))
                if isinstance(e, ast.Call):
                    name = ast.unparse(e.func)
                    args = [ev(a) for a in e.args]
                    if name == "len":
                        return len(args[0])
                    if name == "bytes":
                        return [z3.BitVecVal(v, 8) if isinstance(v, int) else v for v in args[0]]
                    if name == "_xor_bytes":
                        assert len(args[0]) == len(args[1]), "XOR needs consistent lengths"
                        return [x ^ y for x, y in zip(*args)]
                    raise pysym.Untranslatable("call " + name)
                if isinstance(e, ast.List):
                    return [ev(x) for x in e.elts]
                if isinstance(e, ast.Subscript):
                    v = ev(e.value)
                    sl = e.slice
                    if isinstance(sl, ast.Slice):
                        lo = ev(sl.lower) if sl.lower else None
                        hi = ev(sl.upper) if sl.upper else None
                        return v[lo:hi]
                    return v[ev(sl)]
                raise pysym.Untranslatable(ast.dump(e))
            for st in fn.body:
                if isinstance(st, ast.Assign) and len(st.targets) == 1 and isinstance(st.targets[0], ast.Name):
                    p.local[st.targets[0].id] = ev(st.value)
                elif isinstance(st, ast.Expr) and isinstance(st.value, ast.Call) and ast.unparse(st.value.func).startswith("_alglog."):
                    continue
                elif isinstance(st, ast.Expr) and isinstance(st.value, ast.Constant):
                    continue
                elif isinstance(st, ast.Return):
                    return [ev(st.value)]
                else:
                    raise pysym.Untranslatable(ast.dump(st))
            raise pysym.Untranslatable("no return")

        def replay(piv_len, id_len):
            from vf import osckit
            c = osckit.make_ctx(b"\x01" * id_len, b"")

            class Alg:
                iv_bytes = ivlen
            c.common_iv = bytes(range(1, ivlen + 1))
            piv = b"\x05" * piv_len
            n = c._construct_nonce(piv, c.sender_id, Alg)
            comp = bytes([id_len]) + b"\0" * (ivlen - 6 - id_len) + c.sender_id + b"\0" * (5 - piv_len) + piv
            assert bytes(x ^ y for x, y in zip(n, c.common_iv)) == comp
        return pysym.Runner(reach, solve, replay)
    return make


def obligations(tier):
    q = tier == "quick"
    F = ["oscore.CanProtect.protect/_split_message/_compress/_build_new_nonce", "oscore.CanUnprotect.unprotect/_uncompress",
         "oscore.BaseSecurityContext._construct_nonce/_extract_external_aad", "oscore.RequestIdentifiers"]
    ST = ["ideal AEAD/HKDF", "cbor stub"]
    obs = []
    for plen in ([1] if q else [0, 1, 2]):
        for qi in range(7):
            obs.append(Obligation("roundtrip-hiding-pay%d-req%d" % (plen, qi), mk_roundtrip(plen, qi), 280 if q else 1500,
                                  functions=F, stubs=ST, concrete={"request shape": qi},
                                  symbolic={"response shape": "index/6", "ids x id context profile": "index/6",
                                            "sequence number": "index/10", "payload bytes": "%d symbolic each way" % plen}))
    obs.append(Obligation("response-binding", mk_binding, 280 if q else 1200, functions=F, stubs=ST,
                          symbolic={"ids x context profile": "index/6", "two different sequence numbers": "indices/5", "server uses own partial IV": "bool"}))
    for where in ("option", "payload"):
        for response in (False, True):
            for pi in ([1, 3] if q else range(len(PROFILES))):
                obs.append(Obligation("tamper-%s-%s-profile%d" % (where, "response" if response else "request", pi), mk_tamper(where, response, pi),
                                      280 if q else 1500, functions=F, stubs=ST,
                                      symbolic={"sequence number": "index/5 (one per partial-IV length)", "position": "0..19",
                                                "replacement": "every single-bit flip ^1 ^2 ^4 ^8 ^0x10 ^0x20 ^0x40 ^0x80 / 0x00 / 0xff / truncate here"},
                                      concrete={"ids": [x.hex() for x in IDS[PROFILES[pi][0]]], "id context": repr(CTXS[PROFILES[pi][1]]), "message": "response" if response else "request"}))
    obs.append(Obligation("tamper-fields", mk_kid_semantic, 280 if q else 1200, functions=F, stubs=ST,
                          symbolic={"ids x context profile": "index/6", "sequence number": "index/5", "manipulation": "index/11 (kid emptied/extended, context added/extended/shortened/emptied, partial IV re-coded/changed/of reserved length 6 or 7/removed)"}))
    obs.append(Obligation("foreign-keys", mk_foreign_keys, 200 if q else 900, functions=F, stubs=ST,
                          symbolic={"ids": "index/5", "id context": "index/4", "other context differs in": "secret / salt / ID context"}))
    obs.append(Obligation("roundtrip-proxy-uri", mk_proxy_uri, 120, functions=F, stubs=ST, expect="violated", finding="D12", twin=False,
                          symbolic={"Proxy-Uri": "index/3"}, note="companion of known finding D12"))
    for L in ([0, 1, 2, 3] if q else [0, 1, 2, 3, 4, 5]):
        obs.append(Obligation("uncompress-total-L%d" % L, mk_uncompress(L), 200 if q else 900, functions=["oscore.CanUnprotect._uncompress"],
                              symbolic={"OSCORE option value": "%d bytes" % L}))
    obs.append(Obligation("compress-roundtrip", mk_compress_roundtrip, 200 if q else 900, functions=["oscore.CanProtect._compress", "oscore.CanUnprotect._uncompress"],
                          symbolic={"sequence number": "[0,2^40)", "kid": "2 bytes", "kid present": "bool", "id context": "index/4"}))
    for ivlen in ([13] if q else [13, 7, 12]):
        obs.append(Obligation("nonce-e2-iv%d" % ivlen, mk_nonce_e2(ivlen), 300, kind="pysym",
                              functions=["oscore.BaseSecurityContext._construct_nonce + _xor_bytes (AST -> z3 BV8 lists)"],
                              symbolic={"partial IV bytes": "1..5 x BitVec8", "id bytes": "0..%d x BitVec8" % (ivlen - 6), "common IV": "%d x BitVec8" % ivlen},
                              concrete={"lengths": "all (piv length, id length) pairs enumerated", "nonce length": ivlen}))
    return obs
