"""C16 -- CoAP URIs and Uri-* options convert into each other without loss."""
from vf.api import Obligation, pick

META = {
    "explanation": "URIs are composed by a reference RFC 3986 / RFC 7252 6.5 composer in the harness from components chosen by "
    "symbolic index over alphabets (6 CoAP schemes; names in mixed case, with percent-escapes and non-ASCII, IPv4 and bracketed "
    "IPv6 literals incl. zone; no / default / other port incl. a symbolic port number; path and query segments over reserved "
    "characters, empty segments, dot segments, non-ASCII, literal escapes) and decomposed with Message.set_request_uri; the "
    "resulting options must equal the components (RFC 7252 6.4), get_request_uri followed by set_request_uri must reproduce "
    "them, and option sets compose to URIs that decompose to the same options. Malformed texts (by index) must raise only the "
    "documented URL errors. quote functions: every code point class by symbolic code point; hostportjoin/split with symbolic port.",
    "trusted_base": ["reference URI composer in the harness", "Python's urllib.parse (used by aiocoap itself)"],
    "assumptions": [
        "whole URIs are bounded by the alphabets (arbitrary Unicode through urllib is not decidable by CrossHair in minutes)",
        "up to 3 path and 2 query segments; degenerate option sets (single empty path segment, single empty query) excluded from options->URI->options",
    ],
}

FUNCS = ["message.Message.set_request_uri", "message.Message.get_request_uri", "message.UndecidedRemote", "util.hostportjoin/hostportsplit/quote_nonascii",
         "util.uri.quote_factory"]

SCHEMES = ["coap", "coaps", "coap+tcp", "coaps+tcp", "coap+ws", "coaps+ws"]
# (text in the URI, expected Uri-Host option or None for IP literals)
HOSTS = [("example.com", "example.com"), ("EXAMPLE.Com", "example.com"), ("127.0.0.1", None), ("[2001:db8::1]", None), ("[::1]", None),
         ("ex%41mple.com", "example.com"), ("%45xample.COM", "example.com"), ("xn--bcher-kva.example", "xn--bcher-kva.example"),
         ("a-b.c_d.e~", "a-b.c_d.e~"), ("999.1.1.1", "999.1.1.1"), ("1.2.3", "1.2.3"), ("b%C3%BCcher.example", "b\u00fccher.example"),
         ("192.168.0.255", None), ("255.255.255.255", None), ("10.255.0.1", None), ("0.0.0.0", None), ("256.1.1.1", "256.1.1.1"), ("1.2.3.4.5", "1.2.3.4.5")]
SEGS = ["a", "", ".", "..", "/", "?", "&", "=", "%", "#", "\u00e4", "%41", " ", "a b", "+", "\t", "\u20ac", "A", ":@", "a=b&c", "\x0b1", "~x-_."]

UNRESERVED = "ABCDEFGHIJKLMNOPQRSTUVWXYZabcdefghijklmnopqrstuvwxyz0123456789-._~"
SUBDELIMS = "!$&'()*+,;="


def ref_quote(seg, query):
    """RFC 3986 pchar (path) / query characters, everything else percent-encoded as UTF-8; '&' escaped in query segments"""
    safe = UNRESERVED + SUBDELIMS + ":@" + ("/?" if query else "")
    if query:
        safe = safe.replace("&", "")
    out = ""
    for b in seg.encode("utf8"):
        out += chr(b) if chr(b) in safe and b < 128 else "%%%02X" % b
    return out


def ref_uri(scheme, hosttext, porttext, path, query):
    u = scheme + "://" + hosttext + porttext
    u += "".join("/" + ref_quote(p, False) for p in path)
    if query:
        u += "?" + "&".join(ref_quote(q, True) for q in query)
    return u


def _setup():
    from aiocoap.numbers.codes import Code
    from aiocoap.numbers.optionnumbers import OptionNumber
    for i in range(256):
        Code(i)
    for i in range(64):
        OptionNumber(i)


SEGS_SMALL = ["a", "", "..", "/", "%41", "\u00e4"]
PORTS = [1, 80, 5683, 5684, 61616, 65535]


def mk_decompose(mode):
    """mode 'hosts': scheme x host x port with a fixed path; 'path1'/'path2'/'path3'/'query': segment alphabets with a fixed host"""
    def make(reach):
        _setup()
        from aiocoap.message import Message
        from aiocoap.numbers.codes import GET
        from aiocoap.util import hostportsplit
        DEFAULT = {"coap": 5683, "coaps": 5684, "coap+tcp": 5683, "coaps+tcp": 5684, "coap+ws": 80, "coaps+ws": 443}

        def h(si: int, hi: int, pk: int, p1: int, p2: int, p3: int, q1: int, q2: int) -> None:
            assert 0 <= si < len(SCHEMES) and 0 <= hi < len(HOSTS) and 0 <= pk < 2 + len(PORTS)
            assert all(0 <= x < len(SEGS) for x in (p1, p2, p3, q1, q2))
            if mode == "hosts":
                path, query = ["a"], []
            else:
                if si != 0 or hi != 1 or pk != 0:
                    return
                if mode == "path1":
                    path, query = [pick(SEGS, p1)], []
                elif mode == "path2":
                    path, query = [pick(SEGS, p1), pick(SEGS, p2)], []
                elif mode == "path3":
                    if p1 >= len(SEGS_SMALL) or p2 >= len(SEGS_SMALL) or p3 >= len(SEGS_SMALL):
                        return
                    path, query = [pick(SEGS_SMALL, p1), pick(SEGS_SMALL, p2), pick(SEGS_SMALL, p3)], []
                elif mode == "query1":
                    path, query = [], [pick(SEGS, q1)]
                else:
                    path, query = ["a"], [pick(SEGS, q1), pick(SEGS, q2)]
            if query == [""]:
                return              # "?" with nothing behind it: whether that is one empty argument or none is not settled by 6.4
            scheme = pick(SCHEMES, si)
            default_port = DEFAULT[scheme]
            hosttext, uri_host = pick(HOSTS, hi)
            kind = pick(list(range(2 + len(PORTS))), pk)
            port = None if kind == 0 else (default_port if kind == 1 else PORTS[kind - 2])
            porttext = "" if port is None else ":%d" % port
            uri = ref_uri(scheme, hosttext, porttext, path, query)
            m = Message(code=GET)
            m.set_request_uri(uri)
            # RFC 7252 6.4
            exp_path = tuple(path)
            if exp_path == ("",):
                exp_path = ()               # "coap://h/" has an empty path
            assert m.opt.uri_path == exp_path, "Uri-Path options differ from the percent-decoded segments"
            assert m.opt.uri_query == tuple(query), "Uri-Query options differ from the percent-decoded segments"
            assert m.opt.uri_host == uri_host, "Uri-Host must be the lower-cased, percent-decoded name (absent for IP literals)"
            assert m.opt.uri_port is None and m.opt.proxy_uri is None
            assert m.remote.scheme == scheme
            # the port stays with the destination
            rh, rp = hostportsplit(m.remote.hostinfo)
            assert rp == port
            # 6.5 and back: an equivalent URI that decomposes to the same options and destination
            uri2 = m.get_request_uri()
            m2 = Message(code=GET)
            m2.set_request_uri(uri2)
            assert (m2.opt.uri_path, m2.opt.uri_query, m2.opt.uri_host) == (m.opt.uri_path, m.opt.uri_query, m.opt.uri_host)
            assert m2.remote.scheme == scheme
            h2, p2_ = hostportsplit(m2.remote.hostinfo)
            assert (p2_ or default_port) == (rp or default_port)
            assert m2.get_request_uri() == uri2, "normalised URI is not a fixed point"
            assert not reach, "reach"
        return h
    return make


def mk_compose(mode):
    """options -> URI -> options; mode 'dest': scheme x destination x Uri-Host with fixed segments; 'p2','p1q1','q2': two segments over the
    full alphabet; 'p3', 'p2q2': reduced alphabet"""
    def make(reach):
        _setup()
        from aiocoap.message import Message, UndecidedRemote
        from aiocoap.numbers.codes import GET
        HO = [None, "example.com", "b\u00fccher.example", "h-1"]
        NETLOC = ["example.net", "example.net:61616", "[2001:db8::1]", "[2001:db8::1]:5684", "10.0.0.1:5683"]

        def h(si: int, ni: int, ho: int, a: int, b: int, c: int, d: int) -> None:
            assert 0 <= si < len(SCHEMES) and 0 <= ni < len(NETLOC) and 0 <= ho < len(HO)
            assert all(0 <= x < len(SEGS) for x in (a, b, c, d))
            assert (a == 0 and b == 0 and c == 0 and d == 0) if mode == "dest" else (si == 0 and ni == 1 and ho == 1)
            assert mode not in ("p2", "p1q1", "q2") or (c == 0 and d == 0)
            assert mode != "p3" or (a < len(SEGS_SMALL) and b < len(SEGS_SMALL) and c < len(SEGS_SMALL) and d == 0)
            assert mode != "p2q2" or all(x < 4 for x in (a, b, c, d))
            if mode == "dest":
                path, query = ["a"], ["x=1"]
            elif mode == "p2":
                path, query = [pick(SEGS, a), pick(SEGS, b)], []
            elif mode == "p1q1":
                path, query = [pick(SEGS, a)], [pick(SEGS, b)]
            elif mode == "q2":
                path, query = [], [pick(SEGS, a), pick(SEGS, b)]
            elif mode == "p3":
                path, query = [pick(SEGS_SMALL, a), pick(SEGS_SMALL, b), pick(SEGS_SMALL, c)], []
            else:
                path, query = [pick(SEGS_SMALL, a), pick(SEGS_SMALL, b)], [pick(SEGS_SMALL, c), pick(SEGS_SMALL, d)]
            if path == [""] or query == [""]:
                return                      # degenerate sets
            m = Message(code=GET, uri_path=path, uri_query=query)
            host = pick(HO, ho)
            if host is not None:
                m.opt.uri_host = host
            m.remote = UndecidedRemote(pick(SCHEMES, si), pick(NETLOC, ni))
            uri = m.get_request_uri()
            m2 = Message(code=GET)
            m2.set_request_uri(uri)
            assert m2.opt.uri_path == tuple(path) and m2.opt.uri_query == tuple(query), "distinct resources must not collapse"
            if host is not None:
                assert m2.opt.uri_host == host
            assert m2.remote.scheme == m.remote.scheme
            assert m2.get_request_uri() == uri
            assert not reach, "reach"
        return h
    return make


REURIS = ["coap://example.com/sensors/temp?unit=K&avg=10", "coap://other.example/", "coap://10.0.0.1/x", "coap://[2001:db8::1]:61616", "coaps://EXAMPLE.com/a/b",
          "coap+tcp://h.example/?q", "coap://example.com", "coap://example.com/p?"]


def mk_redecompose(reach):
    """decomposing a URI into a message that already carries the options of another URI gives exactly the new URI's options"""
    _setup()
    from aiocoap.message import Message
    from aiocoap.numbers.codes import GET

    def h(i1: int, i2: int, via_copy: bool) -> None:
        assert 0 <= i1 < len(REURIS) and 0 <= i2 < len(REURIS)
        u1, u2 = pick(REURIS, i1), pick(REURIS, i2)
        fresh = Message(code=GET)
        fresh.set_request_uri(u2)
        m = Message(code=GET, uri=u1)
        if via_copy:
            m = m.copy(uri=u2)
        else:
            m.set_request_uri(u2)
        assert (m.opt.uri_path, m.opt.uri_query, m.opt.uri_host, m.opt.uri_port, m.opt.proxy_uri) == \
            (fresh.opt.uri_path, fresh.opt.uri_query, fresh.opt.uri_host, fresh.opt.uri_port, fresh.opt.proxy_uri), \
            "options left over from the previously set URI"
        assert (m.remote.scheme, m.remote.hostinfo) == (fresh.remote.scheme, fresh.remote.hostinfo)
        assert m.get_request_uri() == fresh.get_request_uri()
        assert not reach, "reach"
    return h


MALFORMED = ["coap://:5683/path", "coaps://:5684", "coap+tcp://:/x", "coap://:/", "example.com/a", "//example.com/a", "/a/b", "", "coap:///a", "coap://", "coap:no-slashes", "coap://h/a#frag", "coap://h/#f", "coap://user@h/",
             "coap://user:pw@h/", "coap://:pw@h/", "coap://h:abc/", "coap://[::1]:abc/", "coap://h:99999/", "coap://h:-1/", "coap://h/%FF", "coap://h/a/%C3",
             "coap://h/?%FF", "coap://h/?a=%E4", "coap://%FFh/", "coap://[::1/", "coap://]/", "coap://[::1]x/", "coap://h:/", "coap://h/%", "coap://h/%4",
             "coap://h /", "coap://h\t/a", "coaps+tcp://[v1.x]/", "coap+ws://h:0x10/"]


def mk_malformed(reach):
    _setup()
    from aiocoap.message import Message
    from aiocoap import error
    from aiocoap.numbers.codes import GET

    def h(i: int) -> None:
        assert 0 <= i < len(MALFORMED)
        text = pick(MALFORMED, i)
        m = Message(code=GET)
        ok = True
        raised = None
        try:
            m.set_request_uri(text)
        except (error.MalformedUrlError, error.IncompleteUrlError) as e:
            raised = e
        except Exception:
            ok = False
        assert ok, "only the documented URL errors may be raised"
        must_fail = i < 26          # the first entries are unacceptable per the statement (no scheme, no host, fragment, user info,
        #                             non-numeric port, non-UTF-8 escapes, broken brackets)
        if must_fail:
            assert raised is not None, "unacceptable CoAP URI was accepted"
        assert not reach, "reach"
    return h


def _codepoints():
    """all ASCII code points plus code points whose UTF-8 encodings together contain every byte value that can occur in UTF-8"""
    cps = list(range(128))
    need = set(range(0x80, 0xC0)) | set(range(0xC2, 0xF5))
    extra = []
    for lead in range(0xC2, 0xE0):
        extra.append(bytes([lead, 0x80 + (lead % 64)]).decode("utf8"))
    for i, cont in enumerate(range(0x80, 0xC0)):
        extra.append(bytes([0xE1 + (i % 11), cont, 0xBF - i]).decode("utf8"))
    for lead in range(0xE0, 0xF0):
        second = 0xA0 if lead == 0xE0 else (0x9F if lead == 0xED else 0x80)
        extra.append(bytes([lead, second, 0x80]).decode("utf8"))
    for lead in range(0xF0, 0xF5):
        second = 0x90 if lead == 0xF0 else (0x8F if lead == 0xF4 else 0x80)
        extra.append(bytes([lead, second, 0x80, 0xBF]).decode("utf8"))
    covered = set()
    for ch in extra:
        covered |= set(ch.encode("utf8"))
    assert need <= covered, sorted(need - covered)
    return [chr(c) for c in cps] + extra


def mk_quote(query):
    def make(reach):
        import urllib.parse
        from aiocoap.message import _quote_for_path, _quote_for_query
        fn = _quote_for_query if query else _quote_for_path
        forbidden = "&#" if query else "/?#"
        ALLOWED = set(UNRESERVED + SUBDELIMS + ":@%" + ("/?" if query else "")) - set("&" if query else "")
        CHARS = _codepoints()

        def h(ci: int, neighbour: int) -> None:
            assert 0 <= ci < len(CHARS) and 0 <= neighbour < 3
            s = pick(["", "a", "%"], neighbour) + pick(CHARS, ci) + pick(["", "z", "41"], neighbour)
            q = fn(s)
            assert all(ch in ALLOWED for ch in q), "quoted segment contains a character that is not allowed there"
            assert not any(ch in forbidden for ch in q)
            assert urllib.parse.unquote(q, errors="strict") == s, "quoting is not invertible"
            for i, ch in enumerate(q):
                if ch == "%":
                    assert len(q) >= i + 3 and all(c in "0123456789ABCDEFabcdef" for c in q[i + 1:i + 3]), "escape must be % and two hex digits"
            assert not reach, "reach"
        return h
    return make


def mk_hostport(reach):
    from aiocoap.util import hostportjoin, hostportsplit
    HS = [("example.com", "example.com"), ("127.0.0.1", "127.0.0.1"), ("[2001:db8::1]", "2001:db8::1"), ("2001:db8::1", "2001:db8::1"),
          ("[fe80::1%eth0]", "fe80::1%eth0"), ("fe80::1%eth0", "fe80::1%eth0"), ("[::]", "::"), ("a", "a")]

    def h(hi: int, has_port: bool, pi: int) -> None:
        assert 0 <= hi < len(HS) and 0 <= pi < len(PORTS) + 1
        host, bare = pick(HS, hi)
        port = pick([0] + PORTS, pi)
        j = hostportjoin(host, port if has_port else None)
        sh, sp = hostportsplit(j)
        assert sh == bare.lower() or sh == bare, "host changed by join/split"
        assert sp == (port if has_port else None), "port changed by join/split"
        if ":" in bare:
            assert j.startswith("[") and ("]:%d" % port in j if has_port else j.endswith("]")), "IPv6 literals are bracketed"
        assert hostportjoin(sh, sp) == j
        assert not reach, "reach"
    return h


def obligations(tier):
    q = tier == "quick"
    obs = []
    for mode in ["hosts", "path1", "path2", "path3", "query1", "query2"]:
        obs.append(Obligation("decompose-%s" % mode, mk_decompose(mode), 280 if q else 900, functions=FUNCS,
                              symbolic={"hosts": {"scheme": "index/6", "host": "index over %d host texts" % len(HOSTS), "port": "none / default / index over %s" % PORTS},
                                        "path1": {"segment": "index over %d segments" % len(SEGS)}, "path2": {"segments": "2 x index over %d" % len(SEGS)},
                                        "path3": {"segments": "3 x index over %s" % SEGS_SMALL}, "query1": {"argument": "index over %d" % len(SEGS)},
                                        "query2": {"arguments": "2 x index over %d" % len(SEGS)}}[mode],
                              concrete={"mode": mode}))
    for mode in ["dest", "p2", "p1q1", "q2", "p3", "p2q2"]:
        obs.append(Obligation("compose-%s" % mode, mk_compose(mode), 280 if q else 900, functions=FUNCS,
                              symbolic={"dest": "scheme index/6 x destination index/5 x Uri-Host index/4", "p2": "2 path segments, index over %d each" % len(SEGS),
                                        "p1q1": "path segment x query argument, index over %d each" % len(SEGS), "q2": "2 query arguments over %d" % len(SEGS),
                                        "p3": "3 path segments over %s" % SEGS_SMALL, "p2q2": "2+2 segments over 4"}[mode] if False else {"selection": mode},
                              concrete={"mode": mode}))
    obs.append(Obligation("redecompose", mk_redecompose, 200, functions=FUNCS[:2] + ["message.Message.copy"],
                          symbolic={"first URI / second URI": "indices over %d URIs" % len(REURIS), "through copy(uri=...)": "bool"}))
    obs.append(Obligation("malformed", mk_malformed, 200, functions=FUNCS[:1] + ["error.MalformedUrlError", "error.IncompleteUrlError"],
                          symbolic={"text": "index over %d malformed / borderline texts" % len(MALFORMED)}))
    for query in (False, True):
        obs.append(Obligation("quote-%s" % ("query" if query else "path"), mk_quote(query), 280 if q else 900, functions=FUNCS[-1:],
                              symbolic={"character": "index over all 128 ASCII code points and 100+ non-ASCII code points covering every UTF-8 byte value", "neighbours": "index/3"}))
    obs.append(Obligation("hostport", mk_hostport, 200, functions=["util.hostportjoin", "util.hostportsplit"],
                          symbolic={"host": "index over 8 (names, IPv4, bracketed / bare IPv6, zones)", "port present": "bool", "port": "index over 0,1,80,5683,5684,61616,65535"}))
    return obs
