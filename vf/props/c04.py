"""C04 -- duplicate requests are executed at most once and re-answered identically."""
from vf.api import Obligation, pick

META = {
    "explanation": "Stack S as server: one request datagram and up to 2 (quick) / 3 (thorough) further copies of it arrive from "
    "sources chosen by symbolic index (same endpoint, same address other port, other address) at instants that are solver "
    "variables ranging over three exchange lifetimes; handler kind (fast, slow with symbolic completion instant, failing, "
    "response-suppressing) by index. A monitor written from the property statement tracks, per (endpoint, message ID), the "
    "first arrival and the acknowledgement already sent, and checks handler invocations and the datagrams each copy triggers.",
    "trusted_base": ["vf.stack (fake datagram transport, integer tuning)", "vf.simloop.SimLoop", "monitor in the harness"],
    "assumptions": [
        "integer ticks; EXCHANGE_LIFETIME = 208000 ticks from ACK_TIMEOUT 2000, ACK_RANDOM_FACTOR 1, MAX_RETRANSMIT 2, MAX_LATENCY 100000",
        "at most two symbolic instants per obligation (R3); arrivals exactly at a deadline accept both orders",
        "separate confirmable responses are acknowledged by the peer (their retransmission is C03's)",
    ],
}

FUNCS = ["MessageManager.dispatch_message/_deduplicate_message/_store_response_for_duplicates/_send_initially/_send_empty_ack/_process_request",
         "TokenManager.process_request", "UDP6EndpointAddress.__eq__/__hash__", "MessageInterfaceUDP6.datagram_msg_received/send"]

EL = 208000


def mk_dups(con, ncopies, sym_h, k, pairs=None, gaps=None, fault_allowed=True, mc=False):
    def make(reach):
        import asyncio
        from vf import stack
        from vf.simloop import SimLoop
        from aiocoap.message import Message
        from aiocoap import resource
        from aiocoap.numbers.types import CON, NON, ACK, RST
        from aiocoap.numbers.codes import Code, GET, EMPTY
        from aiocoap.numbers.constants import Unreliable
        stack.configure(ack_timeout=2000, ack_random_factor=1, max_retransmit=2)
        SRCS = [stack.R0, stack.R1, stack.R2]

        class Res(resource.Resource):
            def __init__(self, loop, kind, h):
                super().__init__()
                self.kind, self.h, self.loop = kind, h, loop
                self.calls = []

            async def render_get(self, request):
                self.calls.append((self.loop.time(), request.remote.sockaddr[:2]))
                if self.kind == 1:
                    await asyncio.sleep(self.h)
                    # separate response sent non-confirmably: its retransmission is C03's and would only add timers here
                    return Message(payload=b"ok", transport_tuning=Unreliable())
                if self.kind == 2:
                    raise ValueError("boom")
                if self.kind == 3:
                    return Message(payload=b"quiet", no_response=26)
                return Message(payload=b"ok")

        GAPS = gaps or ([0, 99, 100, 101, EL] if (con and k == 1) else [0, 50, EL])
        PAIRS = pairs or [(0, 0), (0, 1), (1, 0), (1, 1), (2, 1)]

        def h(hh: int, d1: int, g2: int, g3: int, sp: int, s3: int, fault: bool) -> None:
            assert 0 <= d1 <= 3 * EL and 0 <= g2 < len(GAPS) and 0 <= g3 < len(GAPS) and 0 <= sp < len(PAIRS) and 0 <= s3 < 2
            assert (101 <= hh <= 2 * EL) if sym_h else hh == 300
            assert fault_allowed or not fault
            d2 = d1 + pick(GAPS, g2)
            d3 = d2 + pick(GAPS, g3)
            s1, s2 = pick(PAIRS, sp)
            arrivals = [(0, 0), (d1, s1), (d2, s2), (d3, s3)][:1 + ncopies]
            with SimLoop() as loop:
                res = Res(loop, k, hh)
                site = resource.Site()
                site.add_resource(["e"], res)
                S = stack.StackS(loop, site)
                wire = Message(code=GET, uri_path=["e"], _mtype=CON if con else NON, _mid=4242, _token=b"\x05").encode()

                def ack_separate():
                    for key in list(S.mman._active_exchanges):
                        a = Message(code=EMPTY, _mtype=ACK, _mid=key[1])
                        S.deliver(a.encode(), key[0].sockaddr)

                first = {}          # source index -> instant of the arrival that counts as "first"
                expected_calls = []
                for ai, (t, si) in enumerate(arrivals):
                    src = pick(SRCS, si)
                    loop.advance_to(t)
                    ack_separate()
                    if fault and ai == 1:
                        # a transport (ICMP) error is reported for the first endpoint just before the second copy arrives
                        S.icmp_error(stack.R0)
                    n0 = len(S.tr.sent)
                    # the acknowledgement already sent for this (endpoint, ID), if any: last ACK with this MID to this endpoint
                    t_first = first.get(si)
                    prev = [d for (d, a, tm) in S.tr.sent if a[:2] == src[:2] and (d[0] >> 4) & 3 == 2 and d[2:4] == wire[2:4]
                            and t_first is not None and tm >= t_first]
                    # mc: the copies were sent to a multicast group this server has joined (same sender endpoint, same ID)
                    S.deliver(wire, src, multicast=mc)
                    new = [(d, a) for (d, a, tm) in S.tr.sent[n0:]]
                    assert all(a[:2] == src[:2] for (d, a) in new)
                    at_edge = t_first is not None and t - t_first == EL
                    is_dup = t_first is not None and t - t_first < EL
                    if t_first is None or (not is_dup and not at_edge):
                        first[si] = t
                        expected_calls.append((t, src[:2]))
                        first_like = True
                    elif at_edge:
                        # exactly at the lifetime: both orders of "forget" and "arrive" are legal
                        first_like = len(res.calls) == len(expected_calls) + 1
                        if first_like:
                            first[si] = t
                            expected_calls.append((t, src[:2]))
                    else:
                        first_like = False
                    if not first_like:
                        if not con:
                            assert new == [], "copies of a non-confirmable request produce no output"
                        else:
                            # the empty-ACK timer of the first copy fires at t_first + 100: at exactly that instant both orders are legal
                            edge_ack = t - first[si] == 100 and k in (1,)
                            if prev:
                                assert [d for (d, a) in new] == [prev[-1]], "byte-identical repetition of the acknowledgement already sent"
                            elif not edge_ack:
                                assert new == [], "nothing if no acknowledgement has been sent yet"
                    assert len(res.calls) == len(expected_calls)
                loop.advance(3 * EL)
                ack_separate()
                loop.drain()
                assert res.calls == expected_calls, "handler invoked once per (endpoint, message ID) and lifetime"
                # the two directions number their messages independently: a request carrying the ID of a message this server
                # itself sent to that endpoint earlier (separate / non-confirmable response) was never received -> it is new
                own = [Message.decode(d) for (d, a, tm) in S.tr.sent if a[:2] == stack.R0[:2] and (d[0] >> 4) & 3 in (0, 1)]
                if own:
                    fresh = Message(code=GET, uri_path=["e"], _mtype=CON if con else NON, _mid=own[-1].mid, _token=b"\x09").encode()
                    S.deliver(fresh, stack.R0)
                    assert len(res.calls) == len(expected_calls) + 1, "request with a never-received (endpoint, ID) treated as a duplicate"
                    loop.advance(3 * EL)
                    ack_separate()
                    loop.drain()
                assert loop.exceptions == []
            assert not reach, "reach"
        return h
    return make


def obligations(tier):
    q = tier == "quick"
    obs = []
    n = 2 if q else 3
    KN = ["fast", "slow", "failing", "suppressing"]
    for con in (True, False):
        ALLP = [(0, 0), (0, 1), (1, 0), (1, 1), (2, 1)]
        variants = [(0, False, None, None, ""), (2, False, None, None, ""), (3, False, None, None, "")]
        for pi, pr in enumerate(ALLP):
            if q and pi in (2, 3):
                continue
            variants.append((1, False, [pr], None, "-src%d" % pi))
        for pi, pr in enumerate(ALLP[:3]):
            if q and pi:
                continue
            variants.append((1, True, [pr], [0, 100, EL], "-symh-src%d" % pi))
        for (k, sym_h, pairs, gaps, suffix) in variants:
            fa = not (k == 1 and suffix not in ("-src0",))
            mca = False
            obs.append(Obligation("duplicates-%s-%s%s" % ("con" if con else "non", KN[k], suffix), mk_dups(con, n, sym_h, k, pairs, gaps, fa, mca),
                                  280 if q else 1500, functions=FUNCS,
                                  symbolic={"d1 (arrival of 2nd copy)": "[0, 3*EXCHANGE_LIFETIME]",
                                            "handler completion instant": "[101, 2*EL]" if sym_h else "300 (concrete)",
                                            "gaps to later copies": "index over 0,99,100,101,EL (CON, slow) / 0,50,EL", "sources of the copies": "index over 5 pairs of 3 endpoints",
                                            "transport error reported for the first endpoint before the 2nd copy": "bool" if fa else "no",
                                            "copies arrive on a multicast address": "yes" if mca else "no",
                                            "afterwards": "a new request carrying the ID of the server's own last NON/CON message to that endpoint"},
                                  concrete={"type": "CON" if con else "NON", "copies": 1 + n, "handler": KN[k]},
                                  stubs=["SimLoop", "FakeDatagramTransport", "integer tuning", "random stubs"]))
    # non-confirmable requests sent to a multicast group the server has joined (confirmable ones: C10), copies from the same sender
    for k in (0, 1, 2):
        obs.append(Obligation("duplicates-non-%s-multicast" % KN[k], mk_dups(False, n, False, k, [(0, 0), (0, 1)], None, False, True),
                              280 if q else 1500, functions=FUNCS,
                              symbolic={"d1 (arrival of 2nd copy)": "[0, 3*EXCHANGE_LIFETIME]", "gaps to later copies": "index over 0,50,EL",
                                        "source of the 3rd copy": "same endpoint / other port"},
                              concrete={"type": "NON", "copies": 1 + n, "handler": KN[k], "destination of all copies": "multicast address (IPV6_PKTINFO)"},
                              stubs=["SimLoop", "FakeDatagramTransport", "integer tuning", "random stubs"]))
    return obs
