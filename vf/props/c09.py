"""C09 -- every request gets exactly one final response reflecting the handler outcome."""
from vf.api import Obligation, pick

META = {
    "explanation": "Stack S as server: a request (method x CON/NON x known/unknown path, by symbolic index) reaches a resource "
    "whose handler outcome is chosen by symbolic index over: returned message with/without code, every renderable error class, "
    "arbitrary exceptions (incl. KeyError/LookupError that routing code itself catches), wrong return types, error renderers "
    "that raise or return None, completion before/after the empty ACK; optionally a concurrent neighbour request whose handler "
    "fails or succeeds. All timers are run (separate CON responses are acknowledged) and the wire is compared with the expected "
    "single final response: token, code, diagnostic payload, bare 5.00 without leaked text.",
    "trusted_base": ["vf.stack (fake datagram transport)", "vf.simloop.SimLoop", "expected-response table in the harness"],
    "assumptions": ["one or two requests per run; No-Response / multicast suppression is C10's (one No-Response case included)"],
}

FUNCS = ["pipe.error_to_message/run_driving_pipe/Pipe", "protocol.Context.render_to_pipe/_render_to_pipe", "resource.Resource.render",
         "resource.Site.render_to_pipe", "interfaces.Resource._render_to_pipe", "error.ConstructionRenderableError.to_message",
         "TokenManager.process_request", "MessageManager.send_message"]

METHODS = [1, 2, 3, 4, 5, 6, 7, 8, 31]       # GET POST PUT DELETE FETCH PATCH iPATCH, unassigned 0.08 / 0.31
SECRET = "secret-text"


def _errs():
    from aiocoap import error
    out = []
    for name in sorted(dir(error)):
        c = getattr(error, name)
        if isinstance(c, type) and issubclass(c, error.ConstructionRenderableError) and c is not error.ConstructionRenderableError \
                and not issubclass(c, error.NetworkError) and name not in ("NoResource",):     # NoRequestInterface is a transport error
            out.append(c)
    return out


def mk_outcomes(con, with_site_nesting, neighbour):
    def make(reach):
        import asyncio
        from vf import stack
        from vf.simloop import SimLoop
        from aiocoap.message import Message
        from aiocoap import resource, error
        from aiocoap.numbers.types import CON, NON, ACK, RST
        from aiocoap.numbers.codes import Code, EMPTY
        stack.configure(max_retransmit=1)
        ERRS = _errs()
        NERR = len(ERRS)

        class BadErr(error.ConstructionRenderableError):
            code = Code.BAD_REQUEST

            def to_message(self):
                raise RuntimeError(SECRET + "-1")

        class NoneErr(error.RenderableError):
            def to_message(self):
                return None

        class H(resource.Resource):
            def __init__(self, kind, delay, errclass=None):
                super().__init__()
                self.kind = kind
                self.delay = delay
                self.errclass = errclass
                self.calls = 0

            async def _go(self, request):
                self.calls += 1
                if self.delay:
                    await asyncio.sleep(self.delay)
                k = self.kind
                if k == 0:
                    return Message(payload=b"ok")
                if k == 1:
                    return Message(code=Code.VALID)
                if k == 2:
                    raise self.errclass("diag")
                if k == 3:
                    raise self.errclass()
                if k == 4:
                    raise ValueError(SECRET + "-2")
                if k == 5:
                    return None
                if k == 6:
                    return 42
                if k == 7:
                    raise BadErr()
                if k == 8:
                    raise NoneErr()
                if k == 9:
                    raise KeyError(SECRET + "-3")
                if k == 10:
                    raise asyncio.TimeoutError(SECRET + "-4")
                if k == 11:
                    return Message(code=Code.BAD_REQUEST, payload=b"handler says no")
                if k == 12:
                    raise IndexError(SECRET + "-5")
                if k == 13:
                    # not a RenderableError although it has a to_message(): what response_raising raises for an
                    # unsuccessful upstream response; letting it propagate must not forward the upstream's answer
                    raise error.ResponseWrappingError(Message(code=Code.NOT_FOUND, payload=(SECRET + "-6").encode()))
            render_get = _go
            render_post = _go
            render_put = _go
            render_delete = _go
            render_fetch = _go

        def expected(kind, meth, path_ok, errclass):
            if not path_ok:
                return Code.NOT_FOUND, None
            if meth in (6, 7, 8, 31):
                return Code.METHOD_NOT_ALLOWED, None
            if kind == 0:
                return {1: Code.CONTENT, 5: Code.CONTENT, 4: Code.DELETED}.get(meth, Code.CHANGED), b"ok"
            if kind == 1:
                return Code.VALID, b""
            if kind == 2:
                return errclass.code, b"diag"
            if kind == 3:
                return errclass.code, errclass.message.encode("utf8")
            if kind == 11:
                return Code.BAD_REQUEST, b"handler says no"
            return Code.INTERNAL_SERVER_ERROR, b""

        def h(kind: int, ei: int, mi: int, slow: bool, path_ok: bool, nr: int) -> None:
            assert 0 <= kind <= 13 and 0 <= ei < NERR and 0 <= mi < len(METHODS) and 0 <= nr <= 2
            k = pick(list(range(14)), kind)
            if k not in (2, 3) and ei != 0:
                return
            errclass = pick(ERRS, ei)
            meth = pick(METHODS, mi)
            nrv = pick([None, 2, 16], nr)
            if nrv is not None and k not in (11, 0):
                return
            # prune combinations whose dimensions are independent in the code under test (each dimension is still covered
            # against a representative of the others): error class x {GET, fast, known path}; unsupported methods and
            # unknown paths x outcome 0; slow completion x outcomes {0, 2, 4, 11}
            if ei != 0 and (mi != 0 or slow or not path_ok):
                return
            if (meth in (6, 7, 8, 31) or not path_ok) and k != 0:
                return
            if slow and k not in (0, 2, 4, 11):
                return
            if nrv is not None and (mi > 1 or not path_ok):
                return
            with SimLoop() as loop:
                res = H(k, 300 if slow else 0, errclass)
                nb = H(pick([0, 0, 4], neighbour), 150)
                site = resource.Site()
                if with_site_nesting:
                    inner = resource.Site()
                    inner.add_resource(["h"], res)
                    rootres = H(0, 0)
                    inner.add_resource([], rootres)        # the nested site's own root resource: </deep/>, not </deep>
                    site.add_resource(["deep"], inner)
                    good_path = ["deep", "h"]
                else:
                    site.add_resource(["h"], res)
                    good_path = ["h"]
                site.add_resource(["n"], nb)
                S = stack.StackS(loop, site)
                m = Message(code=meth, _mtype=CON if con else NON, _mid=77, _token=b"\x09", uri_path=good_path if path_ok else (["deep"] if with_site_nesting and mi % 2 else ["nope"]))
                if nrv is not None:
                    m.opt.no_response = nrv
                if neighbour:
                    S.deliver(Message(code=1, _mtype=CON, _mid=90, _token=b"\x0a", uri_path=["n"]).encode(), stack.R1)
                S.deliver(m.encode(), stack.R0)
                # run everything; acknowledge separate confirmable responses so that they are not retransmitted
                for _ in range(4):
                    loop.advance(200)
                    for key in list(S.mman._active_exchanges):
                        a = Message(code=EMPTY, _mtype=ACK, _mid=key[1])
                        S.deliver(a.encode(), key[0].sockaddr)
                loop.drain()
                raw = S.out_raw()
                mine = [Message.decode(d) for (d, a, t) in raw if a[1] == stack.R0[1]]
                theirs = [Message.decode(d) for (d, a, t) in raw if a[1] == stack.R1[1]]
                finals = [o for o in mine if int(o.code) != 0]
                ecode, epayload = expected(k, meth, path_ok, errclass)
                suppressed = nrv is not None and (nrv & (1 << (int(ecode) // 32 - 1))) != 0
                if suppressed:
                    assert finals == []
                else:
                    assert len(finals) == 1, "exactly one final response"
                    fin = finals[0]
                    assert fin.token == b"\x09"
                    assert fin.code == ecode
                    if epayload is not None:
                        assert fin.payload == epayload
                    if ecode == Code.INTERNAL_SERVER_ERROR and k not in (2, 3):
                        assert fin.payload == b"" and list(fin.opt.option_list()) == [], "bare 5.00"
                assert not any(SECRET.encode() in d for (d, a, t) in raw), "exception text leaked"
                if con:
                    assert len([o for o in mine if o.mtype == ACK and o.mid == 77]) == 1
                assert res.calls == (1 if path_ok and meth <= 5 else 0)
                if with_site_nesting:
                    assert rootres.calls == 0, "request for the mount path of a nested site (no trailing slash) reached the nested site's root resource"
                # the neighbour is unaffected by whatever happened to this request
                if neighbour:
                    nf = [o for o in theirs if int(o.code) != 0]
                    assert len(nf) == 1 and nf[0].token == b"\x0a"
                    assert nf[0].code == (Code.CONTENT if neighbour == 1 else Code.INTERNAL_SERVER_ERROR)
                    assert nb.calls == 1
                # ... and so is a later request
                S.deliver(Message(code=1, _mtype=NON, _mid=99, _token=b"\x0b", uri_path=["n"]).encode(), stack.R2)
                loop.drain()
                later = [Message.decode(d) for (d, a, t) in S.out_raw() if a[0] == stack.R2[0]]
                assert len(later) == 1 and later[0].token == b"\x0b" and int(later[0].code) in (69, 160)
                assert loop.exceptions == []
            assert not reach, "reach"
        return h
    return make


def mk_concurrent_slow(n):
    """n confirmable requests from one endpoint whose handlers all finish after the empty ACK: their separate confirmable
    responses queue behind each other (NSTART) and every one of them has to arrive"""
    def make(reach):
        import asyncio
        from vf import stack
        from vf.simloop import SimLoop
        from aiocoap.message import Message
        from aiocoap import resource, error
        from aiocoap.numbers.types import CON, NON, ACK
        from aiocoap.numbers.codes import Code, EMPTY
        stack.configure(max_retransmit=1)

        class H(resource.Resource):
            def __init__(self, kind, delay):
                super().__init__()
                self.kind, self.delay, self.calls = kind, delay, 0

            async def render_get(self, request):
                self.calls += 1
                await asyncio.sleep(self.delay)
                if self.kind == 1:
                    raise error.BadRequest("diag")
                if self.kind == 2:
                    raise ValueError(SECRET)
                return Message(payload=b"ok")

        EXP = [Code.CONTENT, Code.BAD_REQUEST, Code.INTERNAL_SERVER_ERROR]
        ORDERS = [(300, 310, 320, 330), (330, 320, 310, 300), (300, 300, 300, 300), (310, 300, 330, 320)]

        def h(k1: int, k2: int, k3: int, k4: int, oi: int, ack_late: bool) -> None:
            assert all(0 <= k <= 2 for k in (k1, k2, k3, k4)) and 0 <= oi < len(ORDERS) and (n == 4 or k4 == 0)
            kinds = [pick([0, 1, 2], k) for k in (k1, k2, k3, k4)][:n]
            delays = pick(ORDERS, oi)
            with SimLoop() as loop:
                site = resource.Site()
                hs = []
                for i in range(n):
                    hs.append(H(kinds[i], delays[i]))
                    site.add_resource(["h%d" % i], hs[i])
                S = stack.StackS(loop, site)
                for i in range(n):
                    S.deliver(Message(code=1, _mtype=CON, _mid=70 + i, _token=bytes([0x20 + i]), uri_path=["h%d" % i]).encode(), stack.R0)
                loop.advance(400 if ack_late else 305)
                for _ in range(2 * n + 2):
                    for key in list(S.mman._active_exchanges):
                        S.deliver(Message(code=EMPTY, _mtype=ACK, _mid=key[1]).encode(), key[0].sockaddr)
                    loop.advance(20)
                loop.drain()
                out = [Message.decode(d) for (d, a, t) in S.out_raw()]
                for i in range(n):
                    fin = [o for o in out if int(o.code) != 0 and o.token == bytes([0x20 + i])]
                    assert len({(o.mid) for o in fin}) == 1, "exactly one final response per request (retransmissions aside)"
                    assert fin[0].code == pick(EXP, kinds[i]) and hs[i].calls == 1
                    assert len([o for o in out if o.mtype == ACK and o.mid == 70 + i and int(o.code) == 0]) == 1
                assert not any(SECRET.encode() in d for (d, a, t) in S.out_raw())
                assert loop.exceptions == []
            assert not reach, "reach"
        return h
    return make


def mk_static_reply(reach):
    """a resource that builds its reply once and returns the same Message object every time: each response still carries the
    token (and, piggy-backed, the message ID) of the request it answers"""
    import asyncio
    from vf import stack
    from vf.simloop import SimLoop
    from aiocoap.message import Message
    from aiocoap import resource
    from aiocoap.numbers.types import CON, NON, ACK
    from aiocoap.numbers.codes import EMPTY
    stack.configure(max_retransmit=1)

    class Static(resource.Resource):
        def __init__(self, delay):
            super().__init__()
            self.reply = Message(payload=b"static")
            self.delay = delay

        async def render_get(self, request):
            if self.delay:
                await asyncio.sleep(self.delay)
            return self.reply

    def h(t1: int, t2: int, t3: int, slow: bool, same_peer: bool) -> None:
        assert 0 <= t1 <= 1 and 0 <= t2 <= 1 and 0 <= t3 <= 1
        with SimLoop() as loop:
            site = resource.Site()
            site.add_resource(["s"], Static(300 if slow else 0))
            S = stack.StackS(loop, site)
            srcs = [stack.R0, stack.R0 if same_peer else stack.R1, stack.R0 if same_peer else stack.R2]
            toks = [b"\x01\x01", b"\x02\x02", b"\x03\x03"]
            for i, t in enumerate((t1, t2, t3)):
                n0 = len(S.tr.sent)
                S.deliver(Message(code=1, _mtype=pick([CON, NON], t), _mid=60 + i, _token=toks[i], uri_path=["s"]).encode(), srcs[i])
                for _ in range(3):
                    loop.advance(200)
                    for key in list(S.mman._active_exchanges):
                        S.deliver(Message(code=EMPTY, _mtype=ACK, _mid=key[1]).encode(), key[0].sockaddr)
                loop.drain()
                new = [Message.decode(d) for (d, a, tm) in S.tr.sent[n0:] if a[:2] == srcs[i][:2]]
                fin = [o for o in new if int(o.code) != 0]
                assert len(fin) == 1 and fin[0].token == toks[i] and fin[0].payload == b"static", "response must carry the token of the request it answers"
                if t == 0 and not slow:
                    assert fin[0].mtype == ACK and fin[0].mid == 60 + i
            assert loop.exceptions == []
        assert not reach, "reach"
    return h


def mk_nosite(reach):
    from vf import stack
    from vf.simloop import SimLoop
    from aiocoap.message import Message
    from aiocoap.numbers.types import CON, NON, ACK
    stack.configure(max_retransmit=1)

    def h(mi: int, con: bool, plen: int) -> None:
        assert 0 <= mi < len(METHODS) and 0 <= plen <= 2
        meth = pick(METHODS, mi)
        path = pick([[], ["a"], ["a", "b"]], plen)
        with SimLoop() as loop:
            S = stack.StackS(loop, None)
            S.deliver(Message(code=meth, _mtype=CON if con else NON, _mid=5, _token=b"\x01\x02", uri_path=path).encode())
            loop.drain()
            out = S.out()
            assert len(out) == 1 and int(out[0].code) == 132 and out[0].token == b"\x01\x02"      # 4.04
            assert out[0].mtype == (ACK if con else NON)
            assert loop.exceptions == []
        assert not reach, "reach"
    return h


def obligations(tier):
    q = tier == "quick"
    obs = []
    for con in (True, False):
      for nest in (False, True):
        for nb in (0, 1, 2):
            if q and (nest, nb) in ((True, 1), (False, 2)):
                continue
            obs.append(Obligation("outcomes-%s-%s-nb%d" % ("con" if con else "non", "nested" if nest else "flat", nb), mk_outcomes(con, nest, nb),
                                  280 if q else 1500, functions=FUNCS,
                                  symbolic={"handler outcome": "index/14", "renderable error class": "index over all ConstructionRenderableError subclasses",
                                            "method": "index over %s" % METHODS, "slow (after empty ACK)": "bool", "path known": "bool", "No-Response": "absent / 2 / 16"},
                                  concrete={"type": "CON" if con else "NON", "resource behind nested site": nest,
                                            "concurrent neighbour": ["none", "succeeding", "failing"][nb]},
                                  stubs=["SimLoop", "FakeDatagramTransport", "integer tuning", "random stubs"]))
    for n in ((3,) if q else (3, 4)):
        obs.append(Obligation("concurrent-slow-same-peer-n%d" % n, mk_concurrent_slow(n), 280 if q else 1500, functions=FUNCS + ["MessageManager._continue_backlog"],
                              symbolic={"handler outcomes": "%d indices over success / renderable error / crash" % n, "completion order": "index/4",
                                        "peer acknowledges after all handlers finished": "bool"},
                              concrete={"requests": "%d CON requests from one endpoint, all completing after the empty ACK" % n}))
    obs.append(Obligation("static-reply-object", mk_static_reply, 200 if q else 600, functions=FUNCS,
                          symbolic={"types of three successive requests": "CON / NON each", "handler completes after the empty ACK": "bool", "all from one endpoint": "bool"},
                          concrete={"handler": "returns the same Message object for every request"}))
    obs.append(Obligation("no-site", mk_nosite, 200, functions=["protocol.Context._render_to_pipe"],
                          symbolic={"method": "index", "CON": "bool", "path length": "0..2"}))
    return obs
