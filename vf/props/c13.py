"""C13 -- OSCORE nonces are never reused across restarts, crashes and exhaustion."""
from vf.api import Obligation

META = {
    "explanation": "The real FilesystemSecurityContext (new_sequence_number, post_seqnoincrease, _store, _load, _destroy, "
    "_replay_window_changed, unprotect) runs over a fake file system whose k-th effect raises a crash; the persisted start "
    "number, the persistence chunk size, the number of protect operations, the crash position and clean/unclean stop are solver "
    "variables. One life from an arbitrary persisted state followed by a reload is the inductive step over crash/reload "
    "histories: every number issued after the reload exceeds every number returned before it.",
    "trusted_base": ["vf/fakefs.py (process-crash file-system model, identity JSON codec)", "vf/oscstubs.py ideal AEAD/HKDF/CBOR, filelock",
                     "secrets.token_bytes -> distinct value per instance"],
    "assumptions": [
        "process-crash model: every completed file-system effect is visible after the crash; os.replace atomic",
        "start number s < 2^40, chunk size in [1,10000], <= 3 protect operations per life, two lives",
        "JSON encoding is an identity stub with contract load(dump(x)) == x",
    ],
}

SETTINGS = {"sender-id_hex": "01", "recipient-id_hex": "", "secret_ascii": "s"}
FUNCS = ["oscore.FilesystemSecurityContext.__init__/_load/_store/post_seqnoincrease/_destroy/_replay_window_changed",
         "oscore.CanProtect.new_sequence_number"]


def _kit():
    from vf import osckit, fakefs
    o = osckit.o
    counter = [0]

    def ctx(fs, first=False, **kw):
        if first:
            counter[0] = 0
        fakefs.install(o, fs, counter)
        return o.FilesystemSecurityContext("/c", **kw)
    return osckit, fakefs, o, ctx


def mk_seqno(reach):
    osckit, fakefs, o, ctx = _kit()

    def h(s: int, has_file: bool, chunk: int, nprot: int, crash: int, clean: bool, nprot2: int) -> None:
        assert 0 <= s < 2 ** 40 - 100 and (has_file or s == 0) and 1 <= chunk <= 10000
        assert 0 <= nprot <= 3 and 0 <= crash <= 14 and 1 <= nprot2 <= 2
        files = {"/c/settings.json": SETTINGS}
        if has_file:
            files["/c/sequence.json"] = {"next-to-send": s, "received": {"index": 0, "bitfield": 0}}
        fs = fakefs.FakeFS(files)
        c = ctx(fs, first=True, sequence_number_chunksize_start=chunk)
        fs.crash_at = fs.n + crash
        issued = []
        crashed = False
        try:
            for i in range(nprot):
                issued.append(c.new_sequence_number())
            if clean:
                c._destroy()
        except fakefs.Crash:
            crashed = True
        except o.ContextUnavailable:
            pass                   # refusing protection near exhaustion is allowed; reuse is not
        c.lockfile = None          # the dead process writes nothing more (no destructor effects)
        # within a life: strictly increasing, never below what the persisted state promised
        assert all(issued[i] < issued[i + 1] for i in range(len(issued) - 1))
        assert all(x >= s for x in issued)
        # reload from whatever survived
        fs2 = fakefs.FakeFS(fs.survivors())
        c2 = ctx(fs2, sequence_number_chunksize_start=chunk)
        issued2 = []
        try:
            for i in range(nprot2):
                issued2.append(c2.new_sequence_number())
        except o.ContextUnavailable:
            pass
        c2.lockfile = None
        assert all(y > x for y in issued2 for x in issued), "sequence number issued twice across a restart"
        assert all(issued2[i] < issued2[i + 1] for i in range(len(issued2) - 1))
        if clean and not crashed and issued2:
            # clean stop wastes nothing
            assert issued2[0] == (issued[-1] + 1 if issued else s)
        assert not reach, "reach"
    return h


def mk_exhaustion(reach):
    osckit, fakefs, o, ctx = _kit()

    def h(d: int, n: int) -> None:
        assert 0 <= d <= 6 and 1 <= n <= 4
        s = 2 ** 40 - 1 - d
        fs = fakefs.FakeFS({"/c/settings.json": SETTINGS, "/c/sequence.json": {"next-to-send": s, "received": {"index": 0, "bitfield": 0}}})
        c = ctx(fs, first=True)
        got = []
        refused = 0
        for i in range(n):
            try:
                got.append(c.new_sequence_number())
            except o.ContextUnavailable:
                refused += 1
        c.lockfile = None
        assert all(0 <= x < 2 ** 40 - 1 for x in got), "partial IV space exceeded / wrapped"
        assert all(got[i] < got[i + 1] for i in range(len(got) - 1))
        assert len(got) == min(n, d) and refused == n - len(got)       # refused exactly from 2^40-1 on
        assert not reach, "reach"
    return h


def mk_replay(n1, clean, first, lives3=False):
  """replay state across clean / unclean stops, through the real unprotect"""
  def make(reach):
    osckit, fakefs, o, ctx = _kit()
    from vf.osckit import Message
    from aiocoap.numbers.codes import GET
    osckit.oscstubs.ORACLE.reset()
    peer = osckit.make_ctx(b"", b"\x01", salt=b"", secret=b"s")
    NUMS = [0, 1, 2, 40]
    REQS = []
    for sn in NUMS:
        peer.sender_sequence_number = sn
        outer, rid = peer.protect(Message(code=GET, uri_path=["r"]))
        REQS.append((sn, outer.opt.encode(), bytes(outer.payload)))

    def feed(c, i):
        sn, optbytes, payload = REQS[i]
        m = Message(code=2, payload=payload)
        m.opt.decode(optbytes)
        m.direction = osckit.Direction.INCOMING
        try:
            c.unprotect(m)
            return True
        except o.ProtectionInvalid:
            return False

    def h(e2: int, e3: int, crash: int, r1: int, r3: int, clean2: bool) -> None:
        assert 0 <= e2 < 4 and 0 <= e3 < 4 and 0 <= crash <= 10 and 0 <= r1 < 4 and 0 <= r3 < 4
        assert lives3 or (r3 == 0 and not clean2)
        fs = fakefs.FakeFS({"/c/settings.json": SETTINGS})
        c = ctx(fs, first=True)
        assert c.sender_key == peer.recipient_key and c.recipient_key == peer.sender_key
        fs.crash_at = fs.n + crash
        accepted = []
        crashed = False
        try:
            for e in (first, e2, e3)[:n1]:
                if feed(c, e):
                    assert NUMS[e] not in accepted
                    accepted.append(NUMS[e])
            if clean:
                c._destroy()
        except fakefs.Crash:
            crashed = True
        c.lockfile = None
        fs2 = fakefs.FakeFS(fs.survivors())
        c2 = ctx(fs2)
        assert c2.echo_recovery != c.echo_recovery          # Echo values are per process
        w = c2.recipient_replay_window
        if clean and not crashed:
            # clean stop: the persisted window equals the live one and still rejects every number accepted before
            assert w.is_initialized() and (w._index, w._bitfield) == (c.recipient_replay_window._index, c.recipient_replay_window._bitfield)
            assert all(not w.is_valid(x) for x in accepted)
        elif accepted:
            # unclean stop after at least one accepted request: the persisted replay state reads as unknown -- or, if the
            # crash hit after the clean-stop state had been written completely, as a window rejecting everything accepted
            assert (not w.is_initialized()) or (clean and all(not w.is_valid(x) for x in accepted))
        was_init = w.is_initialized()
        ok = feed(c2, r1)
        if NUMS[r1] in accepted:
            assert not ok, "request accepted before the stop was accepted again after reload"
        if not was_init:
            assert not ok, "request accepted although the replay state is unknown (no Echo exchange happened)"
        if ok:
            accepted.append(NUMS[r1])
        if lives3:
            # second life ends (cleanly or not) without an Echo exchange having happened; third life
            if clean2:
                c2._destroy()
            c2.lockfile = None
            fs3 = fakefs.FakeFS(fs2.survivors())
            c3 = ctx(fs3)
            w3 = c3.recipient_replay_window
            was_init3 = w3.is_initialized()
            ok3 = feed(c3, r3)
            if NUMS[r3] in accepted:
                assert not ok3, "request accepted in an earlier life was accepted again two restarts later"
            if not was_init3:
                assert not ok3, "request accepted although the replay state is unknown (no Echo exchange happened)"
            if not was_init and not ok:
                assert not was_init3, "replay state became usable across a restart although no Echo exchange ever happened"
            c3.lockfile = None
        c2.lockfile = None
        assert not reach, "reach"
    return h
  return make


def obligations(tier):
    q = tier == "quick"
    obs = [
        Obligation("seqno-crash-reload", mk_seqno, 280 if q else 1500, functions=FUNCS,
                   symbolic={"s (persisted next-to-send)": "[0, 2^40-100)", "sequence.json present": "bool", "chunk size": "[1,10000]",
                             "protect operations in life 1": "0..3", "crash position (effect index)": "0..14 (beyond the last effect = no crash)",
                             "clean stop": "bool", "protect operations in life 2": "1..2"},
                   stubs=["FakeFS", "identity JSON", "filelock stub", "ideal HKDF"]),
        Obligation("seqno-exhaustion", mk_exhaustion, 200 if q else 600, functions=FUNCS,
                   symbolic={"distance of the start number from 2^40-1": "0..6", "protect operations": "1..4"},
                   stubs=["FakeFS", "identity JSON"]),
    ]
    shapes = [(1, c, f) for c in (False, True) for f in (0, 3)] + [(2, c, f) for c in (False, True) for f in (0, 1, 3)]
    shapes += [(3, False, 0), (3, True, 1)] if q else [(3, c, f) for c in (False, True) for f in range(4)]
    for n1, clean, first in shapes:
        obs.append(Obligation("replay-state-n%d-%s-first%d" % (n1, "clean" if clean else "unclean", first), mk_replay(n1, clean, first),
                              280 if q else 1500, functions=FUNCS + ["oscore.CanUnprotect.unprotect", "oscore.ReplayWindow.*"],
                              symbolic={"later requests in life 1": "%d by index over sequence numbers 0,1,2,40" % (n1 - 1), "crash position": "0..10 (beyond last effect = none)",
                                        "request fed after reload": "index over 4"},
                              concrete={"requests in life 1": n1, "clean stop attempted": clean, "first request": first},
                              stubs=["FakeFS", "identity JSON", "ideal AEAD/HKDF", "secrets.token_bytes -> per-instance value"]))
    for clean in (False, True):
        obs.append(Obligation("replay-state-three-lives-%s" % ("clean" if clean else "unclean"), mk_replay(2, clean, 0, lives3=True),
                              600 if q else 1800, functions=FUNCS + ["oscore.CanUnprotect.unprotect", "oscore.ReplayWindow.*"],
                              symbolic={"second request in life 1": "index/4", "crash position in life 1": "0..10", "request fed in life 2": "index/4",
                                        "life 2 stopped cleanly": "bool", "request fed in life 3": "index/4"},
                              concrete={"lives": 3, "clean stop attempted in life 1": clean},
                              stubs=["FakeFS", "identity JSON", "ideal AEAD/HKDF", "secrets.token_bytes -> per-instance value"]))
    return obs
