"""JSON encoding of counterexample literals (int, bool, str, bytes, None, lists, tuples)."""
import json


def enc(o):
    if isinstance(o, (bytes, bytearray)):
        return {"__bytes__": bytes(o).hex()}
    if isinstance(o, tuple):
        return {"__tuple__": [enc(x) for x in o]}
    if isinstance(o, list):
        return [enc(x) for x in o]
    if isinstance(o, dict):
        return {str(k): enc(v) for k, v in o.items()}
    if isinstance(o, bool) or o is None or isinstance(o, (int, str, float)):
        return o
    return repr(o)


def dec(o):
    if isinstance(o, dict):
        if "__bytes__" in o:
            return bytes.fromhex(o["__bytes__"])
        if "__tuple__" in o:
            return tuple(dec(x) for x in o["__tuple__"])
        return {k: dec(v) for k, v in o.items()}
    if isinstance(o, list):
        return [dec(x) for x in o]
    return o


def dumps(o, **k):
    return json.dumps(enc(o), **k)


def loads(s):
    return dec(json.loads(s))
