"""E2: AST -> z3 bit-vector symbolic interpreter for small integer kernels (DESIGN 1.1).

The function source is read from /repo with ast on every run; the statement subset below is
interpreted into z3 BitVec(W) terms, paths are enumerated (feasibility by z3), and claims are
discharged as unsat of `pre AND path AND NOT post`.  Python ints do not wrap: every + - << emits
a no-overflow side condition (guard) that is part of the post-condition.  Anything outside the
subset raises Untranslatable (-> harness error, never a guess).
"""
import ast
import time

import z3


class Untranslatable(Exception):
    pass


class Path:
    def __init__(self, cond, state, local, guards):
        self.cond = cond
        self.state = state
        self.local = local
        self.guards = guards

    def fork(self, extra):
        return Path(z3.And(self.cond, extra), dict(self.state), dict(self.local), list(self.guards))


class Interp:
    def __init__(self, source, clsname=None, width=64, hooks=None):
        self.W = width
        tree = ast.parse(source)
        if clsname:
            cls = None
            for part in clsname.split("."):
                scope = tree if cls is None else cls
                cls = [n for n in ast.walk(scope) if isinstance(n, ast.ClassDef) and n.name == part][0]
            self.methods = {n.name: n for n in cls.body if isinstance(n, ast.FunctionDef)}
        else:
            self.methods = {n.name: n for n in tree.body if isinstance(n, ast.FunctionDef)}
        self.pre = z3.BoolVal(True)
        self.queries = 0
        self.unsat = 0
        self.z3_seconds = 0.0
        self.hooks = hooks or {}

    # ---- solver
    def check(self, *conds):
        s = z3.Solver()
        s.set("timeout", 120000)
        s.add(self.pre, *conds)
        t = time.perf_counter()
        r = s.check()
        self.z3_seconds += time.perf_counter() - t
        self.queries += 1
        if r == z3.unsat:
            self.unsat += 1
        return r, s

    def feasible(self, cond):
        r, _ = self.check(cond)
        return r != z3.unsat

    def bv(self, v):
        if isinstance(v, bool):
            return v
        if isinstance(v, int):
            return z3.BitVecVal(v, self.W)
        return v

    # ---- calls
    def call(self, name, state, args, cond=None):
        fn = self.methods[name]
        params = [a.arg for a in fn.args.args]
        if params and params[0] == "self":
            params = params[1:]
        local = dict(zip(params, args))
        return self.block(fn.body, Path(cond if cond is not None else z3.BoolVal(True), dict(state), local, []))

    def call_inline(self, name, p, args):
        fn = self.methods[name]
        params = [a.arg for a in fn.args.args]
        if params and params[0] == "self":
            params = params[1:]
        q = Path(p.cond, p.state, dict(zip(params, args)), p.guards)
        res = []
        for (r, o) in self.block(fn.body, q):
            res.append((Path(r.cond, r.state, dict(p.local), r.guards), o or ("return", None)))
        return res

    # ---- statements
    def block(self, stmts, p):
        if not stmts:
            return [(p, None)]
        outs = []
        for (q, o) in self.stmt(stmts[0], p):
            if o is not None:
                outs.append((q, o))
            else:
                outs.extend(self.block(stmts[1:], q))
        return outs

    def stmt(self, st, p):
        if isinstance(st, ast.Expr):
            if isinstance(st.value, ast.Constant):
                return [(p, None)]
            if isinstance(st.value, ast.Call):
                f = st.value.func
                if isinstance(f, ast.Attribute) and isinstance(f.value, ast.Name) and f.value.id == "self":
                    if f.attr in self.methods:
                        args = [self.expr(a, p) for a in st.value.args]
                        return [(q, o if (o and o[0] == "raise") else None) for (q, o) in self.call_inline(f.attr, p, args)]
                    p.state["__calls__"] = p.state.get("__calls__", []) + [f.attr]
                    return [(p, None)]
            raise Untranslatable(ast.dump(st))
        if isinstance(st, ast.Return):
            v = st.value
            if (isinstance(v, ast.Call) and isinstance(v.func, ast.Attribute) and v.func.attr == "lstrip" and len(v.args) == 1
                    and isinstance(v.args[0], ast.Constant) and v.args[0].value == b"\0"):
                # bytes.lstrip(b"\0") on a list of BitVec8: one path per number of leading zero bytes
                lst = self.expr(v.func.value, p)
                if not isinstance(lst, list):
                    raise Untranslatable("lstrip on non-bytes")
                outs = []
                for k in range(len(lst) + 1):
                    conds = [b == 0 for b in lst[:k]] + ([lst[k] != 0] if k < len(lst) else [])
                    q = p.fork(z3.And(*conds) if conds else z3.BoolVal(True))
                    if self.feasible(q.cond):
                        outs.append((q, ("return", lst[k:])))
                return outs
            return [(p, ("return", self.expr(st.value, p) if st.value else None))]
        if isinstance(st, ast.Raise):
            exc = st.exc
            name = exc.func.id if isinstance(exc, ast.Call) else exc.id
            return [(p, ("raise", name))]
        if isinstance(st, ast.Assert):
            c = self.tobool(self.expr(st.test, p))
            outs = []
            pf = p.fork(z3.Not(c))
            if self.feasible(pf.cond):
                outs.append((pf, ("raise", "AssertionError")))
            pt = p.fork(c)
            if self.feasible(pt.cond):
                outs.append((pt, None))
            return outs
        if isinstance(st, ast.If):
            c = self.tobool(self.expr(st.test, p))
            outs = []
            for (cc, body) in ((c, st.body), (z3.Not(c), st.orelse)):
                q = p.fork(cc)
                if self.feasible(q.cond):
                    outs.extend(self.block(body, q))
            return outs
        if isinstance(st, (ast.Assign, ast.AugAssign)):
            if isinstance(st, ast.Assign):
                if len(st.targets) != 1:
                    raise Untranslatable("multiple targets")
                tgt = st.targets[0]
                val = self.expr(st.value, p)
            else:
                tgt = st.target
                val = self.binop(st.op, self.expr(st.target, p), self.expr(st.value, p), p)
            if isinstance(tgt, ast.Name):
                p.local[tgt.id] = val
            elif isinstance(tgt, ast.Attribute) and isinstance(tgt.value, ast.Name) and tgt.value.id == "self":
                p.state[tgt.attr] = val
            else:
                raise Untranslatable(ast.dump(tgt))
            return [(p, None)]
        raise Untranslatable(ast.dump(st))

    # ---- expressions
    def tobool(self, v):
        if isinstance(v, bool):
            return z3.BoolVal(v)
        if z3.is_bool(v):
            return v
        return self.bv(v) != 0

    def binop(self, op, a, b, p):
        if isinstance(a, list) or isinstance(b, list):
            if isinstance(op, ast.Add) and isinstance(a, list) and isinstance(b, list):
                return a + b
            if isinstance(op, ast.Mult) and isinstance(a, list) and isinstance(b, int):
                return a * b
            raise Untranslatable("list op")
        a, b = self.bv(a), self.bv(b)
        W = self.W
        if isinstance(op, ast.Add):
            p.guards.append(z3.BVAddNoOverflow(a, b, True))
            p.guards.append(z3.BVAddNoUnderflow(a, b))
            return a + b
        if isinstance(op, ast.Sub):
            p.guards.append(z3.BVSubNoOverflow(a, b))
            p.guards.append(z3.BVSubNoUnderflow(a, b, True))
            return a - b
        if isinstance(op, ast.Mult):
            p.guards.append(z3.BVMulNoOverflow(a, b, True))
            p.guards.append(z3.BVMulNoUnderflow(a, b))
            return a * b
        if isinstance(op, ast.RShift):
            p.guards.append(b >= 0)
            p.guards.append(a >= 0)
            return z3.If(z3.UGE(b, W), self.bv(0), z3.LShR(a, b))
        if isinstance(op, ast.LShift):
            p.guards.append(z3.And(b >= 0, z3.ULT(b, W - 1)))
            p.guards.append(z3.LShR(a << b, b) == a)
            p.guards.append((a << b) >= 0)
            return a << b
        if isinstance(op, ast.Mod):
            # only for non-negative operands (guarded): Python % equals unsigned remainder then
            p.guards.append(a >= 0)
            p.guards.append(b > 0)
            return z3.URem(a, b)
        if isinstance(op, ast.BitAnd):
            return a & b
        if isinstance(op, ast.BitOr):
            return a | b
        if isinstance(op, ast.BitXor):
            return a ^ b
        raise Untranslatable(repr(op))

    def expr(self, e, p):
        if isinstance(e, ast.Constant):
            return e.value
        if isinstance(e, ast.Name):
            if e.id in p.local:
                return p.local[e.id]
            raise Untranslatable("name " + e.id)
        if isinstance(e, ast.Attribute) and isinstance(e.value, ast.Name) and e.value.id == "self":
            if e.attr in p.state:
                return p.state[e.attr]
            raise Untranslatable("self." + e.attr)
        if isinstance(e, ast.BinOp) and isinstance(e.op, ast.Pow):
            l, r = self.expr(e.left, p), self.expr(e.right, p)
            if isinstance(l, int) and isinstance(r, int):
                return l ** r
            raise Untranslatable("symbolic power")
        if isinstance(e, ast.BinOp):
            return self.binop(e.op, self.expr(e.left, p), self.expr(e.right, p), p)
        if isinstance(e, ast.UnaryOp) and isinstance(e.op, ast.Not):
            return z3.Not(self.tobool(self.expr(e.operand, p)))
        if isinstance(e, ast.BoolOp):
            vals = [self.tobool(self.expr(v, p)) for v in e.values]
            return z3.And(*vals) if isinstance(e.op, ast.And) else z3.Or(*vals)
        if isinstance(e, ast.Compare):
            l = self.expr(e.left, p)
            cs = []
            for op, r in zip(e.ops, e.comparators):
                r = self.expr(r, p)
                if r is None or l is None:
                    cs.append(z3.BoolVal((l is r) if isinstance(op, (ast.Is, ast.Eq)) else (l is not r)))
                else:
                    a, b = self.bv(l), self.bv(r)
                    cs.append({ast.Lt: lambda: a < b, ast.LtE: lambda: a <= b, ast.Gt: lambda: a > b, ast.GtE: lambda: a >= b,
                               ast.Eq: lambda: a == b, ast.NotEq: lambda: a != b}[type(op)]())
                l = r
            return z3.And(*cs) if len(cs) > 1 else cs[0]
        if isinstance(e, ast.Call):
            f = e.func
            # self.method(...) inlined (pure methods merged with ite)
            if isinstance(f, ast.Attribute) and isinstance(f.value, ast.Name) and f.value.id == "self" and f.attr in self.methods:
                res = self.call_inline(f.attr, p, [self.expr(a, p) for a in e.args])
                val = None
                for (r, o) in reversed(res):
                    if o[0] != "return":
                        raise Untranslatable("raise inside expression call")
                    v = o[1]
                    v = self.tobool(v) if (z3.is_bool(v) or isinstance(v, bool)) else self.bv(v)
                    val = v if val is None else z3.If(r.cond, v, val)
                return val
            if isinstance(f, ast.Attribute) and f.attr == "to_bytes" and len(e.args) == 2:
                # int.to_bytes(n, "big") -> list of n BitVec8 (side condition: 0 <= value < 256^n)
                val = self.bv(self.expr(f.value, p))
                n = self.expr(e.args[0], p)
                if not isinstance(n, int) or ast.literal_eval(e.args[1]) != "big" or 8 * n >= self.W:
                    raise Untranslatable("to_bytes")
                p.guards.append(z3.And(val >= 0, z3.ULT(val, self.bv(256 ** n))))
                return [z3.Extract(8 * (n - i) - 1, 8 * (n - i - 1), val) for i in range(n)]
            name = ast.unparse(f)
            if name in self.hooks:
                args = [self.expr(a, p) for a in e.args]
                kwargs = {k.arg: self.expr(k.value, p) for k in e.keywords}
                return self.hooks[name](self, p, *args, **kwargs)
            if name == "bool" and len(e.args) == 1:
                return self.tobool(self.expr(e.args[0], p))
            if name == "int.from_bytes":
                raw = self.expr(e.args[0], p)
                if not isinstance(raw, list) or ast.literal_eval(e.args[1]) != "big":
                    raise Untranslatable("from_bytes")
                if len(raw) * 8 >= self.W:
                    raise Untranslatable("from_bytes wider than word")
                v = z3.BitVecVal(0, self.W)
                for b in raw:
                    v = (v << 8) | z3.ZeroExt(self.W - 8, b)
                return v
            raise Untranslatable("call " + name)
        raise Untranslatable(ast.dump(e))


def sym_bytes(prefix, n):
    return [z3.BitVec("%s%d" % (prefix, i), 8) for i in range(n)]


def model_int(model, v):
    r = model.eval(v, model_completion=True)
    return r.as_long()


class Runner:
    """make(reach) of a kind='pysym' obligation returns one of these: called without arguments it runs the
    translation + queries (solve), called with keyword arguments it replays a model natively (replay must raise
    AssertionError if the property is violated for these inputs)."""

    def __init__(self, reach, solve, replay):
        self.reach = reach
        self.solve = solve
        self.replay = replay

    def __call__(self, **args):
        if args:
            return self.replay(**args)
        t = time.time()
        r = self.solve(self.reach)
        r.setdefault("wall", round(time.time() - t, 2))
        return r


def finish(I, failures, reach, reach_ok, npaths, unknown=0):
    """common result assembly: failures = list of (description, named_args)"""
    res = dict(paths=npaths, queries=I.queries, unsat=I.unsat, z3_queries=I.queries, z3_seconds=round(I.z3_seconds, 3))
    if reach:
        if reach_ok:
            res.update(verdict="SAT", message="reach: a return path is satisfiable under the precondition", exc="reach")
        else:
            res.update(verdict="UNSAT", message="no return path satisfiable: vacuous")
        return res
    if failures:
        d, a = failures[0]
        res.update(verdict="SAT", message=d, exc=d, named_args=a, args=a)
    elif unknown:
        res.update(verdict="UNKNOWN", message="%d queries returned unknown" % unknown)
    else:
        res.update(verdict="UNSAT", message="all %d negated claims unsat" % I.unsat)
    return res
