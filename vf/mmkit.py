"""Kernel-level fakes around the real MessageManager (C03, C14): a recording token manager above it
and a recording message interface below it; remotes are minimal EndpointAddress stand-ins."""
import logging

import aiocoap.messagemanager as mmod
from aiocoap.messagemanager import MessageManager
from aiocoap.numbers.codes import Code

from .simloop import SimLoop  # noqa

LOG = logging.getLogger("vf-null")


class Remote:
    is_multicast = False
    is_multicast_locally = False

    def __init__(self, n):
        self.n = n

    def as_response_address(self):
        return self

    def __repr__(self):
        return "R%d" % self.n

    def __eq__(self, other):
        return isinstance(other, Remote) and other.n == self.n

    def __hash__(self):
        return hash(("R", self.n))


class RecTokenManager:
    def __init__(self, loop):
        self.loop = loop
        self.log = LOG
        self.errors = []       # (time, exc, remote)
        self.requests = []
        self.responses = []
        self.response_ok = True
        self.client_credentials = None

    def dispatch_error(self, exc, remote):
        self.errors.append((self.loop.time(), exc, remote))

    def process_request(self, request):
        self.requests.append(request)

    def process_response(self, response):
        self.responses.append(response)
        return self.response_ok


class RecMessageInterface:
    def __init__(self, loop):
        self.loop = loop
        self.sent = []   # (time, msg, bytes)

    def send(self, msg):
        self.sent.append((self.loop.time(), msg, msg.encode()))

    async def shutdown(self):
        pass


class DrawRandom:
    """random stub: uniform() returns the harness-chosen draw (checked against the documented
    contract a <= draw <= b by the harness' leading assumption), randint a fixed start."""

    def __init__(self, mid_start=7):
        self.draw = None
        self.mid_start = mid_start
        self.calls = []

    def randint(self, a, b):
        return self.mid_start

    def uniform(self, a, b):
        self.calls.append((a, b))
        return a if self.draw is None else self.draw


def setup(mid_start=7):
    for i in range(256):
        Code(i)
    r = DrawRandom(mid_start)
    mmod.random = r
    return r


def make(loop):
    tm = RecTokenManager(loop)
    mm = MessageManager(tm)
    mi = RecMessageInterface(loop)
    mm.message_interface = mi
    return tm, mm, mi
