"""Deterministic virtual-time asyncio loop (DESIGN 3.3).  Integer time only."""
import asyncio
import collections
from asyncio import events


class SimLoop(asyncio.AbstractEventLoop):
    def __init__(self):
        self._now = 0
        self._ready = collections.deque()
        self._timers = []
        self.exceptions = []
        self.tasks = []

    # --- AbstractEventLoop subset used by aiocoap
    def time(self):
        return self._now

    def get_debug(self):
        return False

    def is_running(self):
        return True

    def is_closed(self):
        return False

    def call_exception_handler(self, context):
        self.exceptions.append(context)

    def create_future(self):
        return asyncio.Future(loop=self)

    def create_task(self, coro, *, name=None, context=None):
        t = asyncio.Task(coro, loop=self, name=name)
        self.tasks.append(t)
        return t

    def call_soon(self, callback, *args, context=None):
        h = events.Handle(callback, args, self, context)
        self._ready.append(h)
        return h

    call_soon_threadsafe = call_soon

    def call_later(self, delay, callback, *args, context=None):
        if isinstance(delay, float) and type(delay) is not float:
            raise TypeError("symbolic float delay reached SimLoop")
        return self.call_at(self._now + delay, callback, *args, context=context)

    def call_at(self, when, callback, *args, context=None):
        h = events.TimerHandle(when, callback, args, self, context)
        self._timers.append(h)
        h._scheduled = True
        return h

    def _timer_handle_cancelled(self, handle):
        pass

    # --- driving
    def run_ready(self, limit=20000):
        n = 0
        while self._ready:
            h = self._ready.popleft()
            if not h._cancelled:
                h._run()
            n += 1
            assert n < limit, "run_ready livelock"

    def run_steps(self, k):
        """run at most k ready handles (fine-grained interleaving control)"""
        n = 0
        while self._ready and n < k:
            h = self._ready.popleft()
            if not h._cancelled:
                h._run()
            n += 1
        return n

    def unretrieved_task_exceptions(self):
        """exceptions of finished tasks that nobody retrieved: what asyncio reports through the loop's exception handler
        ("Task exception was never retrieved") once the task is garbage collected"""
        out = []
        for t in self.tasks:
            if t.done() and not t.cancelled() and getattr(t, "_log_traceback", False):
                out.append(t.exception())
                t._log_traceback = True
        return out

    def pending_timers(self):
        self._timers = [t for t in self._timers if not t._cancelled]
        return self._timers

    def _earliest(self, cands):
        first = cands[0]
        for h in cands[1:]:
            if h._when < first._when:
                first = h
        return first

    def fire(self, handle):
        self._timers.remove(handle)
        if handle._when > self._now:
            self._now = handle._when
        if not handle._cancelled:
            handle._run()
        self.run_ready()

    def advance_to(self, t):
        """run every timer due at or before t (deadline order, FIFO on ties), then now=t"""
        n = 0
        while True:
            self.run_ready()
            due = [h for h in self.pending_timers() if h._when <= t]
            if not due:
                break
            self.fire(self._earliest(due))
            n += 1
            assert n < 2000, "advance_to livelock"
        if t > self._now:
            self._now = t
        self.run_ready()

    def advance(self, dt):
        self.advance_to(self._now + dt)

    def drain(self, limit=200):
        """run until no timers are left"""
        n = 0
        while True:
            self.run_ready()
            p = self.pending_timers()
            if not p:
                break
            self.fire(self._earliest(p))
            n += 1
            assert n < limit, "drain: too many timers"

    def __enter__(self):
        events._set_running_loop(self)
        return self

    def __exit__(self, *a):
        events._set_running_loop(None)
