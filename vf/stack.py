"""Stack S (DESIGN 3.4): real Context + TokenManager + MessageManager + MessageInterfaceUDP6 +
UDP6EndpointAddress, wired as create_server_context wires them, on SimLoop over a fake asyncio
datagram transport.  Plus the environment configuration shared by the stack harnesses."""
import logging
import socket

from .simloop import SimLoop  # noqa: F401

import aiocoap.messagemanager as mmod
import aiocoap.tokenmanager as tmod
from aiocoap.protocol import Context
from aiocoap.tokenmanager import TokenManager
from aiocoap.messagemanager import MessageManager
from aiocoap.message import Message
from aiocoap.numbers.constants import TransportTuning
from aiocoap.numbers.codes import Code
from aiocoap.transports import udp6

LOG = logging.getLogger("vf-null")

_REAL_ADDR = udp6.UDP6EndpointAddress


class GuardedAddress(_REAL_ADDR):
    """Same hash, same equality on UDP6EndpointAddress operands; returns False instead of raising
    AttributeError when compared with a non-address.  Needed only because CrossHair models dicts
    built in traced code by linear == probing (so an address is compared with e.g. None from the
    (token, None) multicast key, which native hashing never does)."""

    def __eq__(self, other):
        if not isinstance(other, _REAL_ADDR):
            return False
        return _REAL_ADDR.__eq__(self, other)

    __hash__ = _REAL_ADDR.__hash__


def configure(ack_timeout=2000, ack_random_factor=1, max_retransmit=2, empty_ack_delay=100,
              max_latency=100000, token_start=7, mid_start=7):
    """Integer-tick tuning (1 tick = 1 ms) as TransportTuning class defaults, deterministic
    random stubs, pre-populated Code enum (R3, R4, R6)."""
    for i in range(256):
        Code(i)
    TransportTuning.ACK_TIMEOUT = ack_timeout
    TransportTuning.ACK_RANDOM_FACTOR = ack_random_factor
    TransportTuning.MAX_RETRANSMIT = max_retransmit
    TransportTuning.EMPTY_ACK_DELAY = empty_ack_delay
    TransportTuning.MAX_LATENCY = max_latency

    class StubRandom:
        def __init__(self, r, u=None):
            self.r = r
            self.u = u

        def randint(self, a, b):
            return self.r

        def uniform(self, a, b):
            return a if self.u is None else self.u

    mmod.random = StubRandom(mid_start)
    tmod.random = StubRandom(token_start)
    udp6.UDP6EndpointAddress = GuardedAddress


class FakeSock:
    def __init__(self, port=5683):
        self.port = port

    def getsockname(self):
        return ("::", self.port, 0, 0)

    def bind(self, addr):
        pass


class FakeDatagramTransport:
    """Mimics util.asyncio.recvmsg.RecvmsgSelectorDatagramTransport at its Python surface:
    sendmsg -> records; after close(): the real one has __sock None -> AttributeError is not
    OSError...; see closed_behaviour."""

    def __init__(self, proto, loop, port=5683):
        self.sent = []          # (data, address, time)
        self.sent_after_close = []
        self.closed = False
        self.proto = proto
        self.loop = loop
        self.sock = FakeSock(port)
        self.fail_sends_to = None   # port whose sends raise OSError -> error_received

    def sendmsg(self, data, ancdata, flags, address):
        if self.closed:
            self.sent_after_close.append((data, address, self.loop.time()))
            return
        if self.fail_sends_to is not None and address[1] == self.fail_sends_to:
            self.proto.error_received(OSError(111, "Connection refused"))
            return
        self.sent.append((data, address, self.loop.time()))

    def get_extra_info(self, k, default=None):
        return self.sock if k == "socket" else default

    def close(self):
        if self.closed:
            return
        self.closed = True
        self.loop.call_soon(self.proto.connection_lost, None)


def pktinfo(multicast=False, addr=None):
    a = socket.inet_pton(socket.AF_INET6, addr or ("ff02::fd" if multicast else "2001:db8::2"))
    return a + (0).to_bytes(4, "little")


R0 = ("2001:db8::1", 1000, 0, 0)
R1 = ("2001:db8::1", 1001, 0, 0)      # same ip, other port
R2 = ("2001:db8::7", 1000, 0, 0)      # other ip, same port
R0_SCOPED = ("2001:db8::1", 1000, 0, 3)  # same ip/port, other scope id (equal by aiocoap's rule)


class StackS:
    def __init__(self, loop, site=None, port=5683):
        self.loop = loop
        self.ctx = Context(loop=loop, serversite=site, loggername="vf-null")
        self.mint = udp6.MessageInterfaceUDP6(("::", port, 0, 0), LOG, loop)
        self.tr = FakeDatagramTransport(self.mint, loop, port)
        self.mint.connection_made(self.tr)
        self.tman = TokenManager(self.ctx)
        self.mman = MessageManager(self.tman)
        self.mint._ctx = self.mman
        self.mman.message_interface = self.mint
        self.tman.token_interface = self.mman
        self.ctx.request_interfaces.append(self.tman)

    def remote(self, sockaddr):
        return udp6.UDP6EndpointAddress(sockaddr, self.mint)

    def deliver(self, data, source=R0, multicast=False):
        """A datagram arrives (bytes), through the real datagram_msg_received."""
        self.mint.datagram_msg_received(
            data, [(socket.IPPROTO_IPV6, socket.IPV6_PKTINFO, pktinfo(multicast))], 0, source)
        self.loop.run_ready()

    def icmp_error(self, source=R0, errno_value=111):
        """An ICMP-style error for a remote, through the real dispatch path used by error_received."""
        self.mman.dispatch_error(OSError(errno_value, "Connection refused"), self.remote(source))
        self.loop.run_ready()

    def out(self):
        return [Message.decode(d) for (d, a, t) in self.tr.sent]

    def out_raw(self):
        return list(self.tr.sent)

    def shutdown(self):
        t = self.loop.create_task(self.ctx.shutdown())
        self.loop.run_ready()
        return t
