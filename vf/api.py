"""Obligation description shared by property modules, worker and runner."""
from dataclasses import dataclass, field
from typing import Callable, Optional


@dataclass
class Obligation:
    """One solver-decided proof obligation.

    make(reach) returns the harness function.  Its parameters (annotated int/bool/
    bytes/str) are the symbolic variables, leading asserts are the assumptions, the
    body drives real aiocoap code, trailing asserts are the property.  With
    reach=True the harness additionally ends in ``assert not reach, "reach"`` (the
    reachability twin: must come back violated at exactly that assertion).

    kind:
      "crosshair": E1 -- symbolic execution by CrossHair, verdict CONFIRMED etc.
      "pysym":     E2 -- make(reach) returns a callable that runs the AST->z3
                   translator itself and returns a result dict (see vf.pysym).
    expect:
      "hold"     -- normal obligation
      "violated" -- companion of a known finding: the listed input class must
                    still fail (keeps known_findings.json truthful)
    """
    name: str
    make: Callable
    timeout: float = 60.0            # CrossHair per-condition budget (s)
    kind: str = "crosshair"
    twin: bool = True                # run the reachability twin
    twin_timeout: float = 30.0
    expect: str = "hold"
    functions: list = field(default_factory=list)   # real functions executed/encoded
    symbolic: dict = field(default_factory=dict)    # variable -> range
    concrete: dict = field(default_factory=dict)    # concretised dimensions
    stubs: list = field(default_factory=list)
    note: str = ""
    finding: Optional[str] = None    # id in known_findings.json for expect="violated"
    search: bool = False             # explicitly non-exhaustive search obligation (R8)


def pick(table, i):
    """R9 early concretisation: returns table[i] for a symbolic index i by forking once per feasible index, so the result
    (and everything computed from it) is concrete.  Plain `table[i]` lets CrossHair build a symbolic element for tables of
    ints/bytes, which then flows into to_bytes/xor/shift code and makes paths very slow."""
    for k in range(len(table)):
        if i == k:
            return table[k]
    raise AssertionError("index out of range (missing leading assumption)")


def untraced():
    """Context manager: run the enclosed code natively (not symbolically traced).  Only for code that handles concrete data
    exclusively (e.g. parsing a concrete response in the oracle) -- a symbolic value touched inside would be an error."""
    from crosshair import tracers
    return tracers.NoTracing()


def repo_root():
    """the tree under analysis: /repo, unless VF_REPO names a scratch copy (used only by the seeded-change trials)"""
    import os
    return os.environ.get("VF_REPO") or "/repo"


def repo_source(rel):
    import os
    return open(os.path.join(repo_root(), rel)).read()
