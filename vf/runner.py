"""./check <ID> [--tier quick|thorough] [--replay file] [--only name] [--jobs N]

Exit codes: 0 = every discharged obligation held (inconclusive ones are printed and
counted in the evidence); 1 = VIOLATION (after successful native replay, not listed as
known finding); 3 = harness/engine error (vacuous harness, non-reproducing
counterexample, untranslatable construct, import failure).
"""
import argparse
import concurrent.futures as cf
import importlib
import json
import os
import random
import subprocess
import sys
import time

from . import jsonx

ROOT = os.path.dirname(os.path.dirname(os.path.abspath(__file__)))
PY = os.path.join(ROOT, ".venv", "bin", "python")


def env():
    e = dict(os.environ)
    e["PYTHONPATH"] = (os.environ.get("VF_REPO") or "/repo") + os.pathsep + ROOT
    e["PYTHONHASHSEED"] = "0"
    e["PYTHONDONTWRITEBYTECODE"] = "1"
    e.setdefault("AIOCOAP_VERIF", "1")
    return e


def run_worker(prop, tier, name, mode, hard_timeout, args=None):
    cmd = [PY, "-m", "vf.worker", prop, tier, name, mode]
    if args is not None:
        cmd.append(jsonx.dumps(args))
    t = time.time()
    try:
        p = subprocess.run(cmd, cwd=ROOT, env=env(), capture_output=True, text=True, timeout=hard_timeout)
    except subprocess.TimeoutExpired:
        return {"obligation": name, "mode": mode, "verdict": "TIMEOUT", "message": "hard wall-clock cap %ss" % hard_timeout,
                "wall_total": round(time.time() - t, 2)}
    for line in reversed(p.stdout.splitlines()):
        if line.startswith("RESULT "):
            return jsonx.loads(line[7:])
    return {"obligation": name, "mode": mode, "verdict": "ERROR",
            "message": "worker died rc=%s: %s" % (p.returncode, (p.stderr or p.stdout)[-1500:]),
            "wall_total": round(time.time() - t, 2)}


def load_known():
    path = os.path.join(ROOT, "known_findings.json")
    if not os.path.exists(path):
        return []
    return json.load(open(path))["findings"]


def matches_known(known, prop, obname, named_args):
    for k in known:
        if k.get("kind") != "known" or k.get("property") != prop:
            continue
        if k.get("obligation") not in (None, obname):
            continue
        m = k.get("match") or {}
        dm = jsonx.dec(m)
        if named_args is None:
            if not dm:
                return k
            continue
        if all(named_args.get(a) == v for a, v in dm.items()):
            return k
    return None


def main(argv=None):
    ap = argparse.ArgumentParser()
    ap.add_argument("prop")
    ap.add_argument("--tier", default=os.environ.get("VERIF_TIER") or "quick", choices=["quick", "thorough"])
    ap.add_argument("--replay")
    ap.add_argument("--only", action="append")
    ap.add_argument("--jobs", type=int, default=int(os.environ.get("VERIF_JOBS") or os.cpu_count() or 4))
    ap.add_argument("--no-evidence", action="store_true")
    ap.add_argument("-v", "--verbose", action="store_true")
    a = ap.parse_args(argv)
    prop = a.prop.upper()
    seed = int(os.environ.get("VERIF_SEED") or 0)

    if a.replay:
        rp = json.load(open(a.replay))
        r = run_worker(prop, rp.get("tier", a.tier), rp["obligation"], "replay", 600, jsonx.dec(rp["args"]))
        print(json.dumps(r, indent=1))
        if r.get("reproduced"):
            print("REPRODUCED property=%s obligation=%s: %s" % (prop, rp["obligation"], r.get("detail")))
            return 1
        print("NOT-REPRODUCED property=%s obligation=%s" % (prop, rp["obligation"]))
        return 0

    sys.path.insert(0, os.environ.get("VF_REPO") or "/repo")
    t0 = time.time()
    mod = importlib.import_module("vf.props.%s" % prop.lower())
    obls = mod.obligations(a.tier)
    if a.only:
        obls = [o for o in obls if any(s in o.name for s in a.only)]
    order = list(obls)
    random.Random(seed).shuffle(order)
    # long ones first for better packing
    order.sort(key=lambda o: -o.timeout)
    known = load_known()

    results = {}
    with cf.ThreadPoolExecutor(max_workers=a.jobs) as ex:
        futs = {}
        for o in order:
            hard = o.timeout * 1.6 + 90
            futs[ex.submit(run_worker, prop, a.tier, o.name, "main", hard)] = (o, "main")
            if o.twin and o.expect == "hold":
                futs[ex.submit(run_worker, prop, a.tier, o.name, "twin", o.twin_timeout * 1.6 + 90)] = (o, "twin")
        for f in cf.as_completed(futs):
            o, mode = futs[f]
            results.setdefault(o.name, {})[mode] = f.result()

    violations, errors, inconclusive, discharged, known_printed = [], [], [], [], []
    samples = []
    evaluations = 0
    nontrivial = 0
    for o in obls:
        r = results[o.name]["main"]
        tw = results[o.name].get("twin")
        v = r.get("verdict")
        status = None
        detail = r.get("message", "")
        evaluations += int(r.get("paths") or 0) + int(r.get("queries") or 0)
        if o.expect == "violated":
            # companion of a known finding
            if v in ("COUNTEREXAMPLE", "SAT"):
                rr = run_worker(prop, a.tier, o.name, "replay", 600, r.get("named_args") or r.get("args"))
                if rr.get("reproduced"):
                    k = next((k for k in known if k.get("id") == o.finding and k.get("kind") == "known"), None)
                    if k:
                        print("KNOWN-FINDING: property=%s %s [%s; failing input %s]" % (prop, k["what"], o.finding, jsonx.dumps(r.get("named_args") or r.get("args"))))
                        known_printed.append(o.finding)
                        status = "known-finding-still-present"
                    else:
                        # the companion fails but is not listed as known -> a real, unlisted violation
                        status = "violation"
                else:
                    status = "error"
                    detail = "counterexample did not replay natively: %s" % rr.get("detail")
            elif v in ("CONFIRMED", "UNSAT"):
                status = "known-finding-gone"
                print("NOTE property=%s finding %s no longer reproduces (obligation %s holds)" % (prop, o.finding, o.name))
            else:
                status = "inconclusive"
        elif v in ("CONFIRMED", "UNSAT"):
            if o.twin:
                tv = tw.get("verdict")
                if tv in ("COUNTEREXAMPLE", "SAT") and "reach" in (tw.get("exc") or tw.get("message") or ""):
                    status = "discharged"
                elif tv in ("CONFIRMED", "UNSAT", "PRE_UNSAT", "NOT_ANALYSED"):
                    status = "error"
                    detail = "vacuous harness: reachability twin verdict %s" % tv
                elif tv in ("COUNTEREXAMPLE", "SAT"):
                    status = "error"
                    detail = "twin failed elsewhere than main: %s" % tw.get("message")
                else:
                    status = "inconclusive"
                    detail = "reachability twin inconclusive (%s)" % tv
            else:
                status = "discharged"
        elif v in ("COUNTEREXAMPLE", "SAT"):
            cargs = r.get("named_args") or r.get("args")
            if cargs is None:
                status = "error"
                detail = "counterexample without parsable arguments: %s" % r.get("message")
            else:
                rr = run_worker(prop, a.tier, o.name, "replay", 600, cargs)
                if rr.get("reproduced"):
                    k = matches_known(known, prop, o.name, r.get("named_args"))
                    if k:
                        print("KNOWN-FINDING: property=%s %s [%s]" % (prop, k["what"], k.get("id")))
                        known_printed.append(k.get("id"))
                        status = "known-finding"
                    else:
                        status = "violation"
                        detail = "%s | native replay: %s" % (r.get("message"), rr.get("detail"))
                else:
                    status = "error"
                    detail = "counterexample did not replay natively (%s): %s" % (rr.get("detail"), r.get("message"))
        elif v in ("PRE_UNSAT", "NOT_ANALYSED", "ERROR"):
            status = "error"
        else:
            status = "inconclusive"

        if status == "violation":
            os.makedirs(os.path.join(ROOT, "replays"), exist_ok=True)
            path = os.path.join(ROOT, "replays", "%s-%s.json" % (prop, o.name))
            with open(path, "w") as fh:
                json.dump({"property": prop, "tier": a.tier, "obligation": o.name,
                           "args": jsonx.enc(r.get("named_args") or r.get("args")), "message": detail}, fh, indent=1)
            violations.append((o.name, path, detail))
        elif status == "error":
            errors.append((o.name, detail))
        elif status == "inconclusive":
            inconclusive.append((o.name, detail))
        elif status == "discharged":
            discharged.append(o.name)
            if int(r.get("paths") or 0) >= 2 or int(r.get("unsat") or 0) >= 1:
                nontrivial += 1
        samples.append({
            "obligation": o.name, "engine": o.kind, "status": status, "verdict": v,
            "functions": o.functions, "symbolic": o.symbolic, "concrete": o.concrete, "stubs": o.stubs,
            "note": o.note, "search_only": o.search, "expect": o.expect,
            "paths": r.get("paths"), "z3_queries": r.get("z3_queries", r.get("queries")),
            "z3_seconds": r.get("z3_seconds"), "wall_s": r.get("wall", r.get("wall_total")),
            "budget_s": o.timeout,
            "twin": (tw or {}).get("verdict"), "detail": (detail or "")[:600],
        })

    wall = round(time.time() - t0, 2)
    if a.verbose:
        for sm in sorted(samples, key=lambda x: x["wall_s"] or 0):
            print("  %-40s %-12s %-14s paths=%s z3q=%s z3s=%s wall=%s twin=%s" % (
                sm["obligation"], sm["status"], sm["verdict"], sm["paths"], sm["z3_queries"], sm["z3_seconds"], sm["wall_s"], sm["twin"]))
    for name, detail in inconclusive:
        print("INCONCLUSIVE property=%s obligation=%s %s" % (prop, name, (detail or "")[:300]))
    for name, detail in errors:
        print("HARNESS-ERROR property=%s obligation=%s %s" % (prop, name, (detail or "")[:1500]))
    for name, path, detail in violations:
        print("VIOLATION property=%s replay=%s" % (prop, path))
        print("  obligation=%s %s" % (name, (detail or "")[:1500]))
    n_hold = len([o for o in obls if o.expect == "hold"])
    print("%s tier=%s obligations=%d discharged=%d inconclusive=%d violations=%d errors=%d known=%d wall=%.1fs" % (
        prop, a.tier, n_hold, len(discharged), len(inconclusive), len(violations), len(errors), len(known_printed), wall))

    if not a.no_evidence and not a.only:
        meta = getattr(mod, "META", {})
        ev = {
            "property_id": prop, "tier": a.tier, "seed": seed, "level": "other",
            "coverage": {
                "explanation": meta.get("explanation", "") + " Verdicts are per obligation: 'discharged' = CrossHair reported "
                "'Confirmed over all paths' (every value of the symbolic parameters inside the stated ranges was covered by an "
                "explored path whose assertions held, path feasibility decided by z3) or, for engine 'pysym', z3 returned unsat "
                "for the negated claim; and the obligation's reachability twin came back violated. Bounds are the per-obligation "
                "'symbolic' ranges and 'concrete' dimensions listed in samples; nothing outside them is claimed.",
                "obligations": n_hold, "discharged": len(discharged),
                "inconclusive": [n for n, _ in inconclusive],
                "checker_cmd": "./check %s --tier %s" % (prop, a.tier),
                "trusted_base": meta.get("trusted_base", []) + [
                    "CPython 3.12", "CrossHair 0.0.110 path exhaustiveness and its models of int/bytes/str", "z3 5.1.0",
                    "harness oracles written from the RFCs", "native replay as arbiter of violations"],
                "evaluations": max(evaluations, 1),
                "distinct_nontrivial": nontrivial,
                "rule": "evaluations = symbolic paths explored by CrossHair plus z3 queries of the AST->z3 engine, summed over "
                        "obligations; distinct_nontrivial = obligations discharged that explored >= 2 feasible paths or >= 1 unsat query",
                "samples": samples,
                "z3_queries_total": sum(int(x.get("z3_queries") or 0) for x in samples),
                "z3_seconds_total": round(sum(float(x.get("z3_seconds") or 0) for x in samples), 2),
                "paths_total": sum(int(x.get("paths") or 0) for x in samples),
                "functions_encoded": sorted({f for x in samples for f in x["functions"]}),
                "exhaustive": False,
                "known_findings_reported": known_printed,
            },
            "assumptions": meta.get("assumptions", []),
            "wall_s": wall,
            "violations": len(violations),
        }
        os.makedirs(os.path.join(ROOT, "evidence"), exist_ok=True)
        with open(os.path.join(ROOT, "evidence", "%s.json" % prop), "w") as fh:
            json.dump(ev, fh, indent=1)

    if violations:
        return 1
    if errors:
        return 3
    return 0


if __name__ == "__main__":
    sys.exit(main())
