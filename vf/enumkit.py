"""R4: pre-populate ExtensibleIntEnum classes for the value range an obligation can reach and
snapshot/restore their member maps (ExtensibleIntEnum._missing_ caches new members in class state)."""


def prepopulate(cls, values):
    for v in values:
        cls(v)


class Snapshot:
    def __init__(self, *classes):
        self.saved = [(c, dict(c._value2member_map_)) for c in classes]

    def restore(self):
        for c, m in self.saved:
            cur = c._value2member_map_
            if len(cur) != len(m):
                for k in list(cur):
                    if k not in m:
                        del cur[k]
