"""Reference CoAP datagram codec written from RFC 7252 section 3 (not from aiocoap code).

Works on plain or symbolic ints/bytes.  Used as the oracle of the differential harnesses."""


class FormatError(Exception):
    pass


def ref_ext(v):
    """RFC 7252 3.1: option delta / length nibble and extension bytes"""
    if v < 13:
        return v, b""
    if v < 269:
        return 13, bytes([v - 13])
    if v <= 65535 + 269:
        w = v - 269
        return 14, bytes([w >> 8, w & 0xFF])
    raise FormatError("not representable")


def ref_encode_options(options):
    """options: list of (number, valuebytes) sorted by number (stable)"""
    out = b""
    prev = 0
    for num, val in options:
        dn, de = ref_ext(num - prev)
        ln, le = ref_ext(len(val))
        out += bytes([(dn << 4) | ln]) + de + le + val
        prev = num
    return out


def ref_encode(mtype, code, mid, token, options, payload):
    out = bytes([(1 << 6) | (mtype << 4) | len(token), code, mid >> 8, mid & 0xFF]) + token
    out += ref_encode_options(options)
    if len(payload) > 0:
        out += b"\xff" + payload
    return out


def ref_decode_options(data):
    """-> (list of (number, valuebytes), payload); FormatError per RFC 7252 3 / 3.1"""
    opts = []
    num = 0
    i = 0
    n = len(data)
    while i < n:
        b = data[i]
        if b == 0xFF:
            if i + 1 >= n:
                raise FormatError("marker followed by zero-length payload")
            return opts, data[i + 1:]
        i += 1
        d, l = b >> 4, b & 15
        if d == 15 or l == 15:
            raise FormatError("reserved nibble 15")
        if d == 13:
            if i + 1 > n:
                raise FormatError("truncated")
            d = data[i] + 13
            i += 1
        elif d == 14:
            if i + 2 > n:
                raise FormatError("truncated")
            d = data[i] * 256 + data[i + 1] + 269
            i += 2
        if l == 13:
            if i + 1 > n:
                raise FormatError("truncated")
            l = data[i] + 13
            i += 1
        elif l == 14:
            if i + 2 > n:
                raise FormatError("truncated")
            l = data[i] * 256 + data[i + 1] + 269
            i += 2
        if i + l > n:
            raise FormatError("truncated value")
        num += d
        opts.append((num, data[i:i + l]))
        i += l
    return opts, b""


def ref_decode(data):
    if len(data) < 4:
        raise FormatError("short")
    ver, t, tkl = data[0] >> 6, (data[0] >> 4) & 3, data[0] & 15
    if ver != 1:
        raise FormatError("version")
    if tkl > 8:
        raise FormatError("TKL 9-15 reserved")
    if len(data) < 4 + tkl:
        raise FormatError("token truncated")
    code = data[1]
    mid = data[2] * 256 + data[3]
    token = data[4:4 + tkl]
    opts, payload = ref_decode_options(data[4 + tkl:])
    return t, code, mid, token, opts, payload


# option formats per RFC 7252 5.10, RFC 7959, RFC 7641, RFC 7967, RFC 8613, RFC 9175, RFC 8768 (Hop-Limit 16),
# RFC 9668 (EDHOC 21, empty) and draft-ietf-core-uri-path-abbrev (13, uint) (number -> format); anything else is opaque
FORMATS = {1: "opaque", 3: "string", 4: "opaque", 5: "empty", 6: "uint", 7: "uint", 8: "string", 9: "opaque", 11: "string",
           12: "uint", 13: "uint", 14: "uint", 15: "string", 16: "uint", 17: "uint", 20: "string", 21: "empty", 23: "block",
           27: "block", 28: "uint", 35: "string", 39: "string", 60: "uint", 252: "opaque", 258: "uint", 292: "opaque"}


def ref_uint(b):
    v = 0
    for x in b:
        v = v * 256 + x
    return v
