"""Shared helpers for the OSCORE harnesses (C11-C13): contexts over the ideal stubs."""
from vf import oscstubs
oscstubs.install()

import aiocoap.oscore as o  # noqa: E402
from aiocoap.message import Message, Direction  # noqa: E402
from aiocoap.numbers.codes import Code  # noqa: E402
from aiocoap.numbers.optionnumbers import OptionNumber  # noqa: E402

for _i in range(256):
    Code(_i)
for _i in range(300):
    OptionNumber(_i)


class Ctx(o.CanProtect, o.CanUnprotect, o.SecurityContextUtils):
    def post_seqnoincrease(self):
        pass


def make_ctx(sender_id, recipient_id, id_context=None, alg=None, window=32, initialized=True, salt=b"salt", secret=b"secret"):
    c = Ctx()
    c.alg_aead = o.algorithms[alg or o.DEFAULT_ALGORITHM]
    c.hashfun = None
    c.sender_id = sender_id
    c.recipient_id = recipient_id
    c.id_context = id_context
    c.derive_keys(salt, secret)
    c.sender_sequence_number = 0
    c.recipient_replay_window = o.ReplayWindow(window, lambda: None)
    if initialized:
        c.recipient_replay_window.initialize_empty()
    c.echo_recovery = None
    return c


def pair(idA=b"\x01", idB=b"", idctx=None, **kw):
    return make_ctx(idA, idB, idctx, **kw), make_ctx(idB, idA, idctx, **kw)


def incoming(m):
    """what the receiving side sees of an outer message"""
    d = Message(code=m.code, payload=m.payload)
    d.opt.decode(m.opt.encode())
    d.direction = Direction.INCOMING
    return d


def inner_fields(m):
    return (int(m.code), bytes(m.payload), [(int(x.number), bytes(x.encode())) for x in m.opt.option_list()])
