"""Runs ONE obligation in a fresh process: python -m vf.worker <prop> <tier> <name> <mode> [args-json]

mode: main | twin | replay.  Prints a line 'RESULT <json>'.
The harness module is imported fresh here, so every encoding is regenerated from the
current /repo source.
"""
import importlib
import inspect
import logging
import os
import sys
import time
import traceback

from . import jsonx


def find(prop, tier, name):
    mod = importlib.import_module("vf.props.%s" % prop.lower())
    for o in mod.obligations(tier):
        if o.name == name:
            return o
    raise SystemExit("no obligation %s in %s/%s" % (name, prop, tier))


def bind_args(fn, args, kwargs):
    sig = inspect.signature(fn)
    ba = sig.bind(*(args or []), **(kwargs or {}))
    return ba.arguments


def main(argv):
    prop, tier, name, mode = argv[:4]
    # R7: logging produces no records.  debug/info/warning are disabled outright; error-level calls still reach Logger._log, which
    # is replaced by a no-op with the real signature -- so a malformed logging call on an error path (unsupported keyword
    # argument) raises TypeError as it would in production, but no LogRecord (wall clock, thread ids, formatting) is built.
    def _log(self, level, msg, args, exc_info=None, extra=None, stack_info=False, stacklevel=1):
        return None
    logging.Logger._log = _log
    logging.disable(logging.WARNING)
    import aiocoap
    from .api import repo_root
    assert os.path.realpath(aiocoap.__file__).startswith(os.path.realpath(repo_root()) + "/"), aiocoap.__file__
    ob = find(prop, tier, name)
    t0 = time.time()
    out = {"obligation": name, "mode": mode}
    try:
        if mode == "replay":
            args = jsonx.loads(argv[4])
            fn = ob.make(False)
            try:
                if isinstance(args, dict):
                    fn(**args)
                else:
                    fn(*args)
                out.update(reproduced=False, detail="harness passed natively")
            except Exception as e:  # noqa
                tb = traceback.extract_tb(e.__traceback__)
                where = ""
                for fr in tb:
                    if "/vf/props/" in fr.filename:
                        where = " at %s:%d `%s`" % (os.path.basename(fr.filename), fr.lineno, (fr.line or "").strip()[:160])
                out.update(reproduced=True, detail="%s: %s%s" % (type(e).__name__, e, where),
                           traceback=traceback.format_exc(limit=12))
        elif ob.kind == "pysym":
            runner = ob.make(mode == "twin")
            out.update(runner())
        else:
            from . import ch
            ch.install_patches()
            fn = ob.make(mode == "twin")
            r = ch.run_crosshair(fn, ob.twin_timeout if mode == "twin" else ob.timeout)
            if r.get("verdict") == "COUNTEREXAMPLE" and r.get("args") is not None:
                try:
                    r["named_args"] = dict(bind_args(fn, r["args"], r["kwargs"]))
                except Exception:
                    r["named_args"] = None
            out.update(r)
    except Exception as e:  # harness/engine error
        out.update(verdict="ERROR", message="%s: %s" % (type(e).__name__, e), traceback=traceback.format_exc(limit=15))
    out["wall_total"] = round(time.time() - t0, 2)
    sys.stdout.flush()
    print("RESULT " + jsonx.dumps(out))


if __name__ == "__main__":
    main(sys.argv[1:])
