"""E1: in-process CrossHair driver with instrumentation and the formatting stubs of DESIGN 3.4."""
import ast
import sys
import time

import z3

STATS = {"z3_queries": 0, "z3_seconds": 0.0, "paths": 0}


def _instrument():
    if getattr(z3.Solver, "_vf_wrapped", False):
        return
    orig = z3.Solver.check

    def check(self, *a, **k):
        t = time.perf_counter()
        try:
            return orig(self, *a, **k)
        finally:
            STATS["z3_queries"] += 1
            STATS["z3_seconds"] += time.perf_counter() - t

    z3.Solver.check = check
    z3.Solver._vf_wrapped = True
    from crosshair import statespace

    oinit = statespace.StateSpace.__init__

    def init(self, *a, **k):
        STATS["paths"] += 1
        return oinit(self, *a, **k)

    statespace.StateSpace.__init__ = init


def install_patches():
    """Formatting stubs (only affect text for logs / task names / reprs)."""
    import crosshair.core_and_libs  # noqa: F401  (registrations)
    from crosshair import core
    from crosshair.core import deep_realize, CrossHairValue
    from crosshair.libimpl import builtinslib as bl

    def _hex(self, *a, **k):
        return "<hex-of-symbolic-bytes>"

    bl.BytesLike.hex = _hex

    def _lazy_percent(self, other):
        # like crosshair's patch for str % x, but only symbolic *scalars* among the
        # arguments are realised; plain objects are formatted through their own
        # __repr__/__str__ (traced like any other code) instead of deep-realising
        # everything reachable from them.
        if not isinstance(self, str):
            raise TypeError
        items = other if isinstance(other, tuple) else (other,)
        if any(isinstance(x, CrossHairValue) for x in items):
            return self.__mod__(deep_realize(other))
        return self.__mod__(other)

    core._PATCH_REGISTRATIONS[str.__mod__] = _lazy_percent


def parse_call_args(message: str):
    """'AssertionError: x when calling h(1, b"..")' -> (exc_text, [args], {kwargs})"""
    marker = " when calling "
    i = message.rfind(marker)
    if i < 0:
        return message, None, None
    head, call = message[:i], message[i + len(marker):]
    # strip possible trailing " (which returns ...)"
    try:
        node = ast.parse(call.strip(), mode="eval").body
    except SyntaxError:
        j = call.rfind(" (which")
        if j < 0:
            return head, None, None
        try:
            node = ast.parse(call[:j].strip(), mode="eval").body
        except SyntaxError:
            return head, None, None
    if not isinstance(node, ast.Call):
        return head, None, None
    env = {}

    def ev(n):
        # CrossHair prints aliased arguments as `v1:=b''` ... `v1`
        if isinstance(n, ast.NamedExpr):
            env[n.target.id] = ev(n.value)
            return env[n.target.id]
        if isinstance(n, ast.Name) and n.id in env:
            return env[n.id]
        return ast.literal_eval(n)

    try:
        args = [ev(a) for a in node.args]
        kwargs = {k.arg: ev(k.value) for k in node.keywords}
    except Exception:
        return head, None, None
    return head, args, kwargs


def run_crosshair(fn, timeout, per_path_timeout=None):
    """Returns dict(verdict, message, args, paths, z3_queries, z3_seconds, wall).

    verdict: CONFIRMED | COUNTEREXAMPLE | CANNOT_CONFIRM | PRE_UNSAT | NOT_ANALYSED
    """
    from crosshair.core_and_libs import analyze_function, run_checkables
    from crosshair.options import AnalysisOptionSet, AnalysisKind

    _instrument()
    kw = dict(
        analysis_kind=[AnalysisKind.asserts],
        per_condition_timeout=timeout,
        report_all=True,
        max_uninteresting_iterations=sys.maxsize,
    )
    if per_path_timeout:
        kw["per_path_timeout"] = per_path_timeout
    opts = AnalysisOptionSet(**kw)
    for k in STATS:
        STATS[k] = 0
    t = time.time()
    msgs = run_checkables(analyze_function(fn, opts))
    wall = time.time() - t
    res = dict(paths=STATS["paths"], z3_queries=STATS["z3_queries"],
               z3_seconds=round(STATS["z3_seconds"], 3), wall=round(wall, 2))
    if not msgs:
        res.update(verdict="NOT_ANALYSED", message="crosshair produced no message (harness must start with assert)")
        return res
    states = [m.state.name for m in msgs]
    # any counterexample wins
    for m in msgs:
        if m.state.name in ("POST_FAIL", "EXEC_ERR", "POST_ERR", "PRE_INVALID"):
            head, args, kwargs = parse_call_args(m.message)
            res.update(verdict="COUNTEREXAMPLE", message=m.message, exc=head, args=args, kwargs=kwargs,
                       line=m.line)
            return res
    if all(s == "CONFIRMED" for s in states):
        res.update(verdict="CONFIRMED", message="Confirmed over all paths")
    elif "PRE_UNSAT" in states:
        res.update(verdict="PRE_UNSAT", message="; ".join(m.message for m in msgs))
    else:
        res.update(verdict="CANNOT_CONFIRM", message="; ".join("%s: %s" % (m.state.name, m.message) for m in msgs))
    return res
