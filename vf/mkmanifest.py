"""Regenerates MANIFEST.json from the CLAIMS table below (run: .venv/bin/python -m vf.mkmanifest)."""
import json
import os

ROOT = os.path.dirname(os.path.dirname(os.path.abspath(__file__)))

BASELINE = ("cd /repo && env -u AIOCOAP_VERIF /venv/bin/python -m pytest -ra -q -p no:cacheprovider --timeout=900 "
            "--continue-on-collection-errors")

TECH_E1 = "bounded symbolic execution of the real code (CrossHair 0.0.110 + z3), native replay of counterexamples"

# property -> (level text, level note, technique, design ref)
CLAIMS = {
    "C02": ("On stack S as client two concurrent requests (types / destinations by symbolic index) are followed by event sequences "
            "chosen by symbolic index over a 58-entry catalogue (responses with token x source x type x MID variations, Reset, "
            "empty ACK, duplicate datagram, transport error per endpoint, next timer, shutdown, a third request submitted after k "
            "loop steps of a running shutdown); a monitor written from the statement decides delivery target, required "
            "Reset/ACK replies and that every result completes exactly once with a Message or an aiocoap Error. next_token is "
            "translated to z3 bit-vectors: the token is an invertible function of the 64-bit counter, so outstanding tokens differ.",
            "fake datagram transport, SimLoop, integer tuning; 2 requests + 2 (3) events + flush by shutdown; endpoint identity = (address, port)",
            TECH_E1 + "; AST->z3 bit-vector translation of TokenManager.next_token", "DESIGN.md 5 C02"),
    "C03": ("Every value of ACK_TIMEOUT (1..1e5 ticks), of the first time-out draw within its contract, of the arrival instant "
            "of an ACK/RST (any instant relative to all timers) and of the reply kind is covered symbolically on the real "
            "MessageManager for each enumerated (MAX_RETRANSMIT, ACK_RANDOM_FACTOR); copies, spacing, give-up instant/class "
            "and the stop-on-ACK/RST rule are asserted. Bounded (integer time, MAX_RETRANSMIT<=6), not a proof.",
            "SimLoop virtual time; random.uniform replaced by an explicit draw; fake token manager / message interface / datagram transport; CrossHair+z3",
            TECH_E1, "DESIGN.md 5 C03"),
    "C01": ("Differential symbolic execution of Message/Options/option-type encode and decode against a reference RFC 7252 "
            "section 3 codec: extended delta/length fields for all values 0..70000, uint/block/string/content-format value codecs, "
            "every option area of 1-2 (3) bytes, single options of every catalogue number with symbolic value bytes, whole messages "
            "with symbolic type/MID/token/payload and option pairs by index, all header bytes, and every single-byte "
            "replacement/insertion/truncation of three valid datagrams; only UnparsableMessage may leave the parser and parsed "
            "messages must round-trip. BlockOption.decode is additionally translated to z3 bit-vectors (E2).",
            "reference codec vf/refcodec.py written from the RFC; byte-string lengths concrete per obligation; option numbers by index or pre-populated enum ranges; CPython UTF-8 codec trusted",
            TECH_E1 + "; AST->z3 bit-vector translation for BlockOption.decode", "DESIGN.md 5 C01"),
    "C04": ("On stack S as server, a request and 2 (3) further copies arrive from endpoints chosen by symbolic index at instants "
            "that are solver variables over three exchange lifetimes (also relative to the handler's symbolic completion instant "
            "and the empty-ACK timer), for fast/slow/failing/response-suppressing handlers, CON and NON, optionally with a "
            "transport error reported for the peer in between; a monitor written from the statement checks handler invocations "
            "per (endpoint, ID, lifetime) and that each copy triggers exactly the byte-identical acknowledgement already sent, or "
            "nothing.",
            "fake datagram transport, SimLoop, integer tuning (EXCHANGE_LIFETIME 208000 ticks), at most two symbolic instants per obligation, copies at exact deadlines accept both orders",
            TECH_E1, "DESIGN.md 5 C04"),
    "C08": ("On stack S as server with a real ObservableResource (fast or suspending render), a CON or NON registration is "
            "followed by event sequences by symbolic index over 11 event kinds (state change, ACK, Reset, retransmission timer up "
            "to give-up, re-registration, plain / deregistering GET on the token, transport error, unsuccessful notification, "
            "time passing, shutdown), also with a second observer; a registration monitor checks token, strictly increasing "
            "Observe values, exactly one cancellation callback per ended registration, observer count, silence after the end and, "
            "after quiescing, that the latest state was notified. Known finding D7 (Reset for NON notifications) has a companion "
            "obligation.",
            "fake datagram transport, SimLoop, integer tuning; 3 (4) events per run; Reset only for unacknowledged notifications",
            TECH_E1, "DESIGN.md 5 C08"),
    "C16": ("URIs composed by a reference RFC 3986 / RFC 7252 6.5 composer from components chosen by symbolic index (6 schemes x 12 "
            "host texts incl. mixed case, percent-escaped, non-ASCII, IPv4, IPv6 x no/default/other ports; path and query segments "
            "over a 22-entry alphabet of reserved characters, empty and dot segments, non-ASCII and literal escapes) are decomposed "
            "with set_request_uri and must give exactly the components (RFC 7252 6.4); get_request_uri/set_request_uri is a fixed "
            "point; option sets compose and decompose to themselves; 31 malformed texts raise only the documented URL errors; the "
            "path/query quoting functions are checked for every ASCII code point and code points covering every UTF-8 byte value; "
            "hostportjoin/split round trip.",
            "alphabet-bounded (whole-URI strings through urllib are not decidable symbolically here); reference composer in the harness; urllib.parse trusted",
            TECH_E1 + " (components by symbolic index: bounded alphabet)", "DESIGN.md 5 C16"),
    "C17": ("Sites built from two registrations chosen by symbolic index (resources and two kinds of nested sites - one with a further "
            "nested site - at 8 paths sharing prefixes, with empty components and a root resource), optionally followed by removal or "
            "replacement of either, answer requests for 16 paths through the real Site.render_to_pipe exactly as a reference router "
            "predicts (handling resource, remaining path seen by the handler, reconstructed original URI, 4.04 otherwise). The "
            "/.well-known/core listing and 22 single-parameter filter queries (exact/prefix on rt, if, ct, href, unknown keys) over "
            "6 registration subsets with removals equal a reference computed from the registration list.",
            "pipe-level driver; layouts documented as unsupported excluded; one filter parameter per query (RFC 6690 4.1)",
            TECH_E1 + " (registrations and paths by symbolic index)", "DESIGN.md 5 C17"),
    "C19": ("The real FileServer handlers run against a throw-away tree re-created per path; 1..3 (4) Uri-Path components by "
            "symbolic index over path-significant tokens (empty, dot segments, embedded slash, NUL, names inside the root, the "
            "components of the sandbox's own absolute path, sentinel names incl. a sibling directory sharing the root's name "
            "prefix) x GET/PUT/DELETE x write on/off x conditional options; every path argument of intercepted os/io/tempfile calls "
            "made on behalf of the server must resolve inside the root, the outside tree stays byte-identical, no sentinel content "
            "is served, error responses and read-only mode leave the root unchanged. The validation predicate is additionally "
            "checked with fully symbolic component strings; block-wise reads of 13 boundary-sized files at every size exponent "
            "reproduce the file.",
            "real file system under a scratch directory in /tmp (removed at exit); interception wrappers filtered to calls reached from fileserver.py; no symlinks in the tree",
            TECH_E1 + " (components by symbolic index; validation predicate with symbolic strings)", "DESIGN.md 5 C19"),
    "C18": ("Two stacks S on one virtual-time loop; the first is put into one of 11 busy scenarios (CON awaiting ACK, awaiting "
            "separate response, block-wise upload, client observation, slow server handler with pending empty-ACK timer, registered "
            "observer, NSTART backlog, live deduplication entries, combinations) and shut down at a symbolic instant in [0,7000] "
            "ticks, optionally with a new request submitted after k loop steps of the running shutdown; all client futures and "
            "observations end with an aiocoap Error, handlers are cancelled, shutdown completes within the time-out, afterwards "
            "nothing is sent and nothing raises when all remaining timers are run, later requests fail with LibraryShutdown and the "
            "second context still completes its own request.",
            "fake datagram transports (a send after close is recorded as violation), SimLoop, SHUTDOWN_TIMEOUT patched to 3000 ticks",
            TECH_E1, "DESIGN.md 5 C18"),
    "C09": ("On stack S as server, handler outcome (13 kinds incl. every renderable error class, arbitrary exceptions such as "
            "KeyError/IndexError/TimeoutError, wrong return types, failing error renderers) x method x CON/NON x fast/slow x "
            "known/unknown path x nested site x concurrent failing/succeeding neighbour, all by symbolic index, are run to "
            "quiescence; exactly one final response with the request token, the expected code and diagnostic payload, a bare "
            "5.00 without leaked text, neighbour and later requests unaffected; no-site contexts answer 4.04.",
            "fake datagram transport, SimLoop; independent dimensions are pruned pairwise (stated in the harness); No-Response suppression is C10's",
            TECH_E1, "DESIGN.md 5 C09"),
    "C10": ("On stack S (real Context/TokenManager/MessageManager/MessageInterfaceUDP6/UDP6EndpointAddress over a fake datagram "
            "transport, virtual time) one incoming datagram of every type x 13 codes x token known/unknown x received on "
            "unicast/multicast x fast/slow handler x 12 No-Response values x 3 response classes (all by symbolic index) is "
            "processed to quiescence and the datagrams on the wire are compared with the RFC 7252 section 4 / RFC 7967 table; "
            "outgoing CON to multicast destinations is refused; code classification for all 256 codes.",
            "fake datagram transport, SimLoop, integer tuning, deterministic random stubs; one incoming message per run",
            TECH_E1, "DESIGN.md 5 C10"),
    "C11": ("protect/unprotect and the OSCORE option codec run over ideal-primitive stand-ins, so that hiding, binding and tamper "
            "detection reduce to what aiocoap's own code puts into key, nonce, AAD and the outer message: round trip and outer-"
            "message content for request/response shapes x id/context profiles x sequence-number boundaries with symbolic payload "
            "bytes; responses never verify against a foreign request; every byte position of option and ciphertext x 8 "
            "replacement kinds and field-level manipulations of kid / kid context / partial IV are rejected with a protection "
            "error; _uncompress is total for all option values of 0..3 (5) bytes; _construct_nonce is translated to z3 and shown "
            "injective and RFC-conformant for all length pairs.",
            "ideal AEAD / random-oracle HKDF / injective CBOR stand-ins (cryptography, cbor2 absent); group modes outside; shapes by symbolic index",
            TECH_E1 + " over ideal crypto stubs; AST->z3 bit-vector translation of _construct_nonce", "DESIGN.md 5 C11"),
    "C12": ("ReplayWindow.is_valid/strike_out/initialize_* are translated from the repository source to z3 bit-vectors; one "
            "strike_out step from ANY state satisfying the representation invariant is shown (unsat of each negated claim) to "
            "preserve the invariant, never accept a number twice, never re-validate, keep everything above the highest seen "
            "number valid, and only move forward - an inductive step covering histories of any length for the enumerated window "
            "sizes and all numbers < 2^40. unprotect() is additionally driven through arrival sequences (authentic/replayed/"
            "forged, by symbolic index) against a reference window model, incl. the uninitialised-window Echo recovery.",
            "ideal AEAD/HKDF/CBOR stand-ins (cryptography, cbor2 are not installed); translator validated on the doctest sequence each run; window sizes enumerated",
            "AST->z3 bit-vector translation of the real ReplayWindow (inductive step, unsat queries) + CrossHair symbolic execution of unprotect over ideal crypto stubs",
            "DESIGN.md 5 C12"),
    "C13": ("The real FilesystemSecurityContext runs over a fake file system whose k-th effect raises a crash: persisted start "
            "number (all < 2^40), chunk size (1..10000), number of protect operations, crash position and clean/unclean stop "
            "are solver variables; after reloading from whatever survived, every number issued exceeds every number returned "
            "before (inductive step over crash/reload histories); exhaustion refuses instead of wrapping; replay state after "
            "unclean stops reads as unknown and after clean stops rejects everything accepted before, checked through the real "
            "unprotect with ideal crypto.",
            "process-crash file-system model (vf/fakefs.py), identity JSON stub, ideal AEAD/HKDF/CBOR and filelock stand-ins, at most 3 operations per life and two lives",
            TECH_E1 + " with a symbolic crash point", "DESIGN.md 5 C13"),
    "C15": ("Length kernels (_encode_length, _extract_message_size) against the RFC 8323 3.2 reading for every length < 2^32+65805 and "
            "every header of 0..5 symbolic bytes incl. prefix-determinism; _serialize/_decode_message against a reference frame codec "
            "at the 12/13 and 268/269 boundaries; every 2-cut chunking (by symbolic index) and every k-byte slicing of catalogue "
            "streams dispatches exactly what the unchunked stream dispatches; a frame arriving after an incomplete header consumes "
            "exactly the announced bytes; rule obligations on the real TcpConnection/_TCPPooling/TokenManager (CSM gate incl. "
            "Ping/Pong first, oversize with symbolic announced length, TKL 9..15, unparsable frames, critical options by symbolic "
            "number, Ping/Pong token, Release/Abort/connection loss failing pending requests, empty messages ignored).",
            "fake stream transport; recording token manager above the real _TCPPooling; chunk contents concrete catalogue streams, cut positions by index",
            TECH_E1, "DESIGN.md 5 C15"),
    "C14": ("From every symbolic pre-state (per remote: exchange open, retransmitted once, 0..2 queued) built through the real "
            "send_message API, every event sequence of depth 2 (quick) / 3 (thorough) over 14 event kinds is explored on the real "
            "MessageManager and compared step by step with a reference NSTART=1 queue model (wire log identity and order, failure "
            "reports, one open exchange per remote, eventual drain). Bounded model-based symbolic exploration, not a proof.",
            "SimLoop; fake token manager / message interface; 2 remotes; MAX_RETRANSMIT=1; reference model written from the property text",
            TECH_E1, "DESIGN.md 5 C14"),
    "C05": ("The real BlockwiseRequest talks to an independent RFC 7959 reference server at the RequestInterface boundary that "
            "validates every request on the wire (contiguous offsets, NUM x size = offset, more-flag exactly on non-final blocks, "
            "exponent never growing) and reassembles the request body; request/response body lengths (index over values around "
            "every block boundary), server/client exponents, the point and depth of a mid-transfer size reduction and 8 kinds of "
            "server misbehaviour are chosen by symbolic index; bodies are compared byte for byte and misbehaviour must end in an "
            "aiocoap Error. Kernels _extract_block, BlockwiseTuple arithmetic and _generate_next_block2_request with symbolic ints.",
            "reference server (vf/props/c05.py RefServer) written from RFC 7959; SimLoop; per-block loss is the message layer's; BERT outside",
            TECH_E1, "DESIGN.md 5 C05"),
    "C06": ("Inductive step on the real Resource.render_to_pipe / Block1Spool / Block2Cache / TimeoutDict: from every pre-state (three "
            "assemblies for endpoint/method/key combinations - incl. two endpoints that differ only in port - each absent, 1 or 2 "
            "blocks long, built through the real API) one (thorough: two) block request with symbolic (selector, NUM, M, length "
            "class) is answered as a reference reassembly model predicts (2.31 echo / 4.08 / 4.00 / handler body, never 5.xx) and "
            "the spool content equals the model afterwards. Block2: body lengths around block boundaries x 3 requests by index, "
            "exact slice of the latest block-0 rendering, one rendering per block-0 request. State lifetime with symbolic idle "
            "times vs MAX_TRANSMIT_WAIT and twice that.",
            "pipe-level driver (render_to_pipe + error_to_message) with real UDP6EndpointAddress remotes; SimLoop; size exponents 0 and 2; integer tuning",
            TECH_E1, "DESIGN.md 5 C06"),
    "C07": ("Observe values (all 2^24), arrival instants, terminator kind and position are solver variables for sequences of 3/4 "
            "notifications fed to the real Request/ClientObservation; deliveries must equal exactly what the RFC 7641 3.4 formula "
            "selects relative to the last delivered (V,T); termination signalled exactly once with the right class. The same through "
            "the real TokenManager/MessageManager with notifications as datagrams (ACK/RST reactions after the end).",
            "clock stub for protocol.time; SimLoop; fake datagram transport; pipe-level obligations emulate TokenManager's is_last rule",
            TECH_E1, "DESIGN.md 5 C07"),
    "C20": ("Histories of 3 (4) operations chosen by symbolic index over 26 operations (register / re-register with valid, invalid and "
            "absent lt, explicit base, unsuitable or extra parameters, sectors; update by POST with/without body and by PUT; delete; "
            "unknown location; passage of a solver-chosen number of seconds), also starting from two live registrations, run on "
            "the real StandaloneResourceDirectory site; after every operation endpoint and resource lookups and every registration "
            "resource are compared with a reference model (latest successful write + lt + grace), locations are kept on "
            "re-registration and never shared, and a 4.xx answer leaves everything unchanged.",
            "pipe-level driver, SimLoop in integer seconds, fake remote with a fixed base URI; lookups (concrete data) run natively inside the symbolic path; simple registration and proxying outside",
            TECH_E1 + " (operation histories by symbolic index, symbolic time step)", "DESIGN.md 5 C20"),
}

NOT_YET = "check under construction in this build (see DESIGN.md section 5); not claimed until its obligations are confirmed on the tree"


def main():
    props = [json.loads(l) for l in open(os.path.join(ROOT, "properties.jsonl"))]
    checks, na = [], []
    for p in props:
        pid = p["id"]
        if pid in CLAIMS:
            text, note, tech, ref = CLAIMS[pid]
            checks.append({
                "property_id": pid,
                "quick_cmd": "./check %s --tier quick" % pid,
                "thorough_cmd": "./check %s --tier thorough" % pid,
                "evidence_file": "evidence/%s.json" % pid,
                "replay_cmd_template": "./check %s --replay {path}" % pid,
                "engine": "vf",
                "level_claimed": {"category": "other", "text": text, "design_ref": ref},
                "level_note": note,
                "technique": tech,
            })
        else:
            na.append({"property_id": pid, "reason": NA.get(pid, NOT_YET)})
    m = {
        "version": 1,
        "setup_cmd": "./setup.sh",
        "hooks": {
            "guard": "AIOCOAP_VERIF",
            "enable": "no source hooks: all stubs are injected from outside through module attributes and constructor wiring; "
                      "checks run with PYTHONPATH=/repo against the working tree",
            "baseline_off_cmd": BASELINE,
            "source_commits": [],
            "add_only": True,
        },
        "engines": [
            {"name": "vf", "path": "vf/", "serves_properties": sorted(CLAIMS),
             "kind_free_text": "E1: CrossHair symbolic execution of harnesses over the real aiocoap objects, z3 deciding path feasibility; "
                               "E2 (vf/pysym.py): AST->z3 bit-vector translation of integer kernels read from /repo on every run"},
        ],
        "checks": checks,
        "not_applicable": na,
        "notes": "Exit codes: 0 held / 1 VIOLATION (natively replayed) / 3 harness or engine error. Evidence level 'other': bounded "
                 "symbolic execution; per-obligation bounds are in evidence samples. known_findings.json lists recorded and fixed defects.",
    }
    with open(os.path.join(ROOT, "MANIFEST.json"), "w") as fh:
        json.dump(m, fh, indent=1)
    print("MANIFEST: %d checks, %d not_applicable" % (len(checks), len(na)))


NA = {}

if __name__ == "__main__":
    main()
